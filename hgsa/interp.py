"""Finite-domain abstract interpreter for fill / _numpy routing code (DESIGN 2.4).

It interprets the AST of the repository's methods over *abstract* values; no repository code is executed.

  * the datum's quantity q is a position on a symbolic order line  -inf < (..) < p1 < (..) < p2 ... < +inf, or NaN.
    Routing code touches q only through comparisons with the node's parameters (points of the line) and isnan/isinf,
    so every comparison is decided by the position: an exact abstraction for comparison-only code.
  * weights are classes {nan, neg, zero, one, pos}; q*weight keeps the sign class of q (Select / Fraction).
  * arithmetic on q is opaque (Arith); int(floor(Arith)) is a bucket that is `in range` exactly for positions in
    [low, high) - float exactness of the index is NOT decided here.
  * _numpy bodies are evaluated on one generic row: every numpy operation used is elementwise or a reduction.
    Reductions over other rows (np.all(...)) are unknown and fork: both the fast and the slow path are explored.
  * unknown booleans fork (all paths are enumerated by replaying with a choice oracle).
Anything outside the supported subset raises Unsup -> ANALYSIS-ERROR (exit 2), never a pass.
"""

import ast

from .loader import AnalysisError, ClassInfo, FuncInfo


class Unsup(AnalysisError):
    pass


class _Return(Exception):
    def __init__(self, value):
        self.value = value


class _Raise(Exception):
    def __init__(self, what):
        self.what = what


class _Break(Exception):
    pass


class _Continue(Exception):
    pass


class NeedChoice(Exception):
    pass


# ------------------------------------------------------------------------------------------------ abstract values
class _NaN:
    def __repr__(self):
        return "NaN"


NAN = _NaN()


class _Unk:
    def __repr__(self):
        return "?"


UNK = _Unk()


class Pos:
    """A position on the order line (even = a named point, odd = the open interval after point k-1)."""

    def __init__(self, k, line, datum=False):
        self.k = k
        self.line = line
        self.datum = datum   # True for the datum's own position (arithmetic on it is opaque)

    def is_inf(self):
        return self.k == 0 or self.k == self.line.top

    def __repr__(self):
        return self.line.describe(self.k)


class OrderLine:
    def __init__(self, points, mids=None, consts=None):
        """points: names of the finite critical points in increasing order."""
        self.points = list(points)
        self.top = 2 * len(points) + 2
        self.mids = dict(mids or {})      # (name a, name b) -> name of the midpoint
        self.consts = dict(consts or {})  # python number -> point name

    def pos_of(self, name):
        if name == "-inf":
            return Pos(0, self)
        if name == "+inf":
            return Pos(self.top, self)
        return Pos(2 * (self.points.index(name) + 1), self)

    def name_of(self, k):
        if k == 0:
            return "-inf"
        if k == self.top:
            return "+inf"
        if k % 2 == 0:
            return self.points[k // 2 - 1]
        return None

    def describe(self, k):
        n = self.name_of(k)
        if n is not None:
            return f"q=={n}" if n not in ("-inf", "+inf") else f"q={n}"
        lo = self.name_of(k - 1)
        hi = self.name_of(k + 1)
        return f"{lo}<q<{hi}"

    def regions(self):
        return [Pos(k, self, datum=True) for k in range(self.top + 1)]


class Num:
    def __init__(self, v):
        self.v = v

    def __repr__(self):
        return repr(self.v)


class Param:
    """A value derived from the node's parameters only (finite; sign may be known)."""

    def __init__(self, desc, sign=None):
        self.desc = desc
        self.sign = sign  # +1 / -1 / 0 / None

    def __repr__(self):
        return f"<{self.desc}>"


class Arith:
    """Opaque result of arithmetic on the datum; `base` is the datum's position (or NAN)."""

    def __init__(self, base):
        self.base = base

    def __repr__(self):
        return f"arith({self.base!r})"


class Key:
    """An integer bucket/key computed from the datum."""

    def __init__(self, kind, base=None, clamped=False):
        self.kind = kind  # in | out | nan | neginf | posinf | floor
        self.base = base
        self.clamped = clamped

    def __repr__(self):
        return f"key:{self.kind}" + ("(clamped)" if self.clamped else "")


class W:
    """A weight: class and provenance."""

    def __init__(self, cls, tag="weight"):
        self.cls = cls  # nan | neg | zero | one | pos
        self.tag = tag  # weight (the caller's weight) | zeroed | q*weight ...

    def __repr__(self):
        return f"{self.tag}[{self.cls}]"


class Scaled:
    """quantity * weight (Select / Fraction)."""

    def __init__(self, q, w):
        self.q = q
        self.w = w

    def __repr__(self):
        return f"({self.q!r})*{self.w!r}"


class Child:
    def __init__(self, slot, kind="agg"):
        self.slot = slot
        self.kind = kind

    def __repr__(self):
        return f"<child {self.slot}>"


class Obj:
    def __init__(self, cls, fields):
        self.cls = cls
        self.fields = fields


class DictSlot:
    def __init__(self, slot, scalar=False):
        self.slot = slot
        self.inserted = {}
        self.scalar = scalar   # a dict of numbers (Bag.values) rather than of sub-aggregators

    def __repr__(self):
        return f"<dict {self.slot}>"


class Arr:
    """A numpy array seen through one generic row."""

    def __init__(self, row, origin="fresh", name=""):
        self.row = row
        self.origin = origin   # input (aliases the caller's array) | fresh
        self.name = name
        self.dtype = None

    def __repr__(self):
        return f"arr[{self.row!r}|{self.origin}]"


class HistResult:
    def __init__(self, contrib, bins):
        self.contrib = contrib    # None or (slot index or '*', weight AV)
        self.bins = bins


class UniqueKeys:
    """Result of np.unique over the keys of all rows; iterated with three abstract keys."""

    def __init__(self, row_key, selected, counts=False, inverse=False):
        self.row_key = row_key
        self.selected = selected   # True / False / UNK : is this row among the rows handed to np.unique
        self.counts = counts
        self.inverse = inverse


class UKey:
    """One abstract unique key: `same`=True when it equals this row's key."""

    def __init__(self, same, row_key, selfsel):
        self.same = same
        self.row_key = row_key
        self.selfsel = selfsel  # was this row itself among the selected rows

    def __repr__(self):
        return f"ukey({'row' if self.same else 'other'})"


class Opaque:
    def __init__(self, desc):
        self.desc = desc

    def __repr__(self):
        return f"opaque:{self.desc}"


class Inc(Opaque):
    """`<current value of the node's field> + amount` (e.g. `after = before + float(weights.sum())`): storing it back into that
    field is an increment by `amount`, exactly like `self.field += amount`"""

    def __init__(self, field, base, amount):
        super().__init__(f"{field}+{amount!r}")
        self.field, self.base, self.amount = field, base, amount


def is_nan(v):
    if v is NAN:
        return True
    if isinstance(v, (Arith, Key)) and v.base is NAN and isinstance(v, Arith):
        return True
    if isinstance(v, Scaled):
        return v.q is NAN or v.w.cls == "nan"
    if isinstance(v, W):
        return v.cls == "nan"
    return False


# ------------------------------------------------------------------------------------------------ the machine
class Machine:
    MAX_PATHS = 400

    def __init__(self, repo, cls, line, selfobj, knobs=None):
        self.repo = repo
        self.cls = cls
        self.line = line
        self.selfobj = selfobj
        self.knobs = dict(knobs or {})
        self.effects = []
        self.choices = []
        self.oracle = []
        self.depth = 0
        self.module_consts = {}
        self.writes_to_inputs = []
        self.q_value = None
        self.bucket = None

    # ---------------------------------------------------------------- path enumeration
    def decide(self, b, why=""):
        if b is True or b is False:
            return b
        if isinstance(b, Num):
            return bool(b.v)
        if b is None:
            return False
        if b is UNK or isinstance(b, (Opaque, _Unk)):
            i = len(self.choices)
            if i < len(self.oracle):
                c = self.oracle[i]
            else:
                c = True
            self.choices.append((c, why))
            return c
        if isinstance(b, (list, tuple, dict, str)):
            return len(b) > 0
        if isinstance(b, (Child, Obj, Arr, DictSlot)):
            return True
        raise Unsup(f"truth value of {b!r}")

    # ---------------------------------------------------------------- comparisons
    def cmp(self, a, op, b):
        if isinstance(op, (ast.Is, ast.IsNot)):
            for u in (a, b):
                if isinstance(u, UKey) and not u.same:
                    return UNK
            a = a.row_key if isinstance(a, UKey) else a
            b = b.row_key if isinstance(b, UKey) else b
            same = (a is b) or (a is None and b is None) or (isinstance(a, tuple) and isinstance(b, tuple) and a == b and a[:1] == ("global",))
            if isinstance(a, (Child, Opaque)) or isinstance(b, (Child, Opaque)):
                if (a is None) != (b is None) and (a is None or b is None):
                    same = False
                elif a is not b:
                    return UNK
            return same if isinstance(op, ast.Is) else not same
        if isinstance(op, (ast.In, ast.NotIn)):
            res = self.contains(b, a)
            if res is UNK:
                return UNK
            return res if isinstance(op, ast.In) else not res
        if isinstance(a, UKey) or isinstance(b, UKey):
            u, o = (a, b) if isinstance(a, UKey) else (b, a)
            if not u.same:
                return UNK
            a, b = (u.row_key, o) if u is a else (o, u.row_key)
        if isinstance(a, _IdxOf) or isinstance(b, _IdxOf):
            return UNK
        if is_nan(a) or is_nan(b):
            return isinstance(op, ast.NotEq)
        if isinstance(op, (ast.Lt, ast.LtE, ast.Gt, ast.GtE)) and ((isinstance(a, Key) and isinstance(b, Num)) or (isinstance(b, Key) and isinstance(a, Num))):
            r = self.key_order(a, op, b)
            if r is not None:
                return r
        ka, kb = self.key_of(a, b), self.key_of(b, a)
        if ka is None or kb is None:
            return UNK
        if ka == "unk" or kb == "unk":
            return UNK
        table = {ast.Lt: ka < kb, ast.LtE: ka <= kb, ast.Gt: ka > kb, ast.GtE: ka >= kb, ast.Eq: ka == kb, ast.NotEq: ka != kb}
        r = table.get(type(op))
        if r is None:
            raise Unsup(f"comparison operator {type(op).__name__}")
        # two values in the same open interval are not comparable
        if isinstance(a, Pos) and isinstance(b, Pos) and a.k == b.k and a.k % 2 == 1:
            return UNK
        return r

    def key_order(self, a, op, b):
        """ordering of a bucket index against a number: an index computed from a position below `low` is negative, one computed from
        a position at or above `high` is >= the number of bins, an in-range one lies in [0, num] (num itself by rounding)"""
        mirror = {ast.Lt: ast.Gt, ast.LtE: ast.GtE, ast.Gt: ast.Lt, ast.GtE: ast.LtE}
        if isinstance(b, Key):
            a, b, op = b, a, mirror[type(op)]()
        key, n = a, b.v
        vals = self.selfobj.fields.get("values") if isinstance(getattr(self, "selfobj", None), Obj) else None
        num = len(vals) if isinstance(vals, (list, tuple)) else None
        lo, hi = self.knobs.get("range_lo"), self.knobs.get("range_hi")
        if key.kind == "out" and isinstance(key.base, Pos) and lo is not None and num is not None:
            above = key.base.k >= self.line.pos_of(hi).k
            if above and n <= num:          # key >= num >= n
                return isinstance(op, (ast.Gt, ast.GtE)) if not (isinstance(op, ast.Gt) and n == num) else UNK
            if not above and n >= 0:        # key < 0 <= n
                return isinstance(op, (ast.Lt, ast.LtE))
            return UNK
        if key.kind == "in" and num is not None:
            if n <= 0:
                return isinstance(op, ast.GtE) if n == 0 else isinstance(op, (ast.Gt, ast.GtE))
            if n == num:
                return UNK if isinstance(op, (ast.GtE, ast.Lt)) else isinstance(op, ast.LtE)    # the quotient may round up to num
            if n > num:
                return isinstance(op, (ast.Lt, ast.LtE))
            return UNK
        return None

    def key_of(self, v, other):
        """Comparable key of v in the context of a comparison with `other` (None -> unknown)."""
        if isinstance(v, Pos):
            if isinstance(other, (Pos,)) or (isinstance(other, Num) and (other.v in self.line.consts or v.is_inf())) or isinstance(other, Scaled):
                if isinstance(other, Num) and other.v not in self.line.consts:
                    return -1e300 if v.k == 0 else 1e300
                return v.k
            if isinstance(other, Param) and v.is_inf():
                return -1e300 if v.k == 0 else 1e300
            return None
        if isinstance(v, Num):
            if isinstance(other, Pos):
                if v.v in self.line.consts:
                    return self.line.pos_of(self.line.consts[v.v]).k
                if other.is_inf():
                    return v.v
                return None
            if isinstance(other, Num):
                return v.v
            if isinstance(other, W):
                return v.v
            if isinstance(other, Scaled):
                return 0 if v.v == 0 else None
            if isinstance(other, Key):
                return ("num", v.v)
            return None
        if isinstance(v, W):
            if isinstance(other, Num):
                if other.v == 0:
                    return {"neg": -1, "zero": 0, "one": 1, "pos": 1}[v.cls]
                if other.v == 1:
                    return {"neg": -1, "zero": 0, "one": 1, "pos": "unk"}[v.cls] if v.cls != "pos" else 2
                return None
            return None
        if isinstance(v, Scaled):
            if isinstance(other, Num) and other.v == 0:
                if v.w.cls in ("pos", "one"):
                    z = self.line.pos_of(self.line.consts[0]).k if 0 in self.line.consts else None
                    if z is None or not isinstance(v.q, Pos):
                        return None
                    return (v.q.k > z) - (v.q.k < z)
                if v.w.cls == "zero":
                    return 0
                if v.w.cls == "neg":
                    z = self.line.pos_of(self.line.consts[0]).k
                    return -((v.q.k > z) - (v.q.k < z))
            return None
        if isinstance(v, Key):
            if isinstance(other, Num):
                nm = self.module_consts
                special = {nm.get("LONG_NAN"): "nan", nm.get("LONG_MINUSINF"): "neginf", nm.get("LONG_PLUSINF"): "posinf"}
                if other.v in special and other.v is not None:
                    return ("num", other.v) if v.kind == special[other.v] else ("key", id(v))
                if v.kind in ("out", "nan", "neginf", "posinf"):
                    return ("key", id(v))   # never equal to an ordinary in-range index
                return None
            if isinstance(other, Key):
                return None
            return None
        if isinstance(v, Param):
            if isinstance(other, Num) and other.v == 0 and v.sign is not None:
                return v.sign
            return None
        if isinstance(v, (str, bool, int, float)):
            return v
        return None

    def contains(self, container, item):
        if isinstance(container, DictSlot):
            return UNK  # data dependent: does this key already exist?
        if isinstance(container, (list, tuple)):
            res = False
            for x in container:
                r = self.cmp(item, ast.Eq(), x) if not isinstance(x, str) or not isinstance(item, str) else (x == item)
                if r is True:
                    return True
                if r is UNK:
                    res = UNK
            return res
        if isinstance(container, dict):
            return item in container if isinstance(item, (str, int)) else UNK
        if isinstance(container, str) and isinstance(item, str):
            return item in container
        return UNK

    # ---------------------------------------------------------------- arithmetic
    def binop(self, a, op, b):
        if isinstance(op, ast.Add) and isinstance(getattr(self, "selfobj", None), Obj):
            for x, y in ((a, b), (b, a)):
                if isinstance(x, Opaque) and not isinstance(x, Inc):
                    for fname, fval in self.selfobj.fields.items():
                        if fval is x and not isinstance(y, (Obj, Child, Arr)):
                            return Inc(fname, x, y)
        if isinstance(op, (ast.BitAnd, ast.BitOr)) and all(x is True or x is False or x is UNK for x in (a, b)):
            if isinstance(op, ast.BitAnd):
                return False if (a is False or b is False) else (UNK if (a is UNK or b is UNK) else True)
            return True if (a is True or b is True) else (UNK if (a is UNK or b is UNK) else False)
        if isinstance(a, (list, tuple)) and isinstance(b, (list, tuple)) and isinstance(op, ast.Add):
            if type(a) is not type(b):
                self.effects.append(("raise", "TypeError: can only concatenate same-kind sequences"))
                raise _Raise("TypeError")
            return a + b
        if isinstance(a, list) and isinstance(b, Num) and isinstance(op, ast.Mult):
            return a * int(b.v)
        if is_nan(a) or is_nan(b):
            return NAN
        # multiplication by the number of rows of the batch (shape[0]) is kept visible: "<per-row amount>*opaque:n"
        if isinstance(op, ast.Mult):
            for x, y in ((a, b), (b, a)):
                if isinstance(y, Opaque) and y.desc == "n" and not (isinstance(x, Opaque) and x.desc == "n"):
                    return Opaque(f"{x!r}*opaque:n")
        if isinstance(a, Num) and isinstance(b, Num):
            try:
                if isinstance(op, ast.Add):
                    return Num(a.v + b.v)
                if isinstance(op, ast.Sub):
                    return Num(a.v - b.v)
                if isinstance(op, ast.Mult):
                    return Num(a.v * b.v)
                if isinstance(op, ast.Div):
                    return Num(a.v / b.v)
                if isinstance(op, ast.FloorDiv):
                    return Num(a.v // b.v)
                if isinstance(op, ast.Mod):
                    return Num(a.v % b.v)
            except ZeroDivisionError:
                return NAN
        # weights
        if isinstance(a, W) or isinstance(b, W):
            w, o = (a, b) if isinstance(a, W) else (b, a)
            if isinstance(op, ast.Mult):
                if isinstance(o, Pos):
                    if o.is_inf() and w.cls == "zero":
                        return NAN          # inf * 0
                    return Scaled(o, w)
                if isinstance(o, Num):
                    if o.v == 1:
                        return w
                    return W(w.cls if o.v > 0 else "zero" if o.v == 0 else "neg", tag=f"{w.tag}*{o.v}")
                if isinstance(o, (Opaque, Param)):
                    return Opaque(f"{w!r}*{o!r}")
            return Opaque(f"{a!r}{type(op).__name__}{b!r}")
        if isinstance(a, Scaled) or isinstance(b, Scaled):
            return Opaque("scaled arithmetic")
        # infinities keep their sign under +/- finite and * / positive
        for x, y in ((a, b), (b, a)):
            if isinstance(x, Pos) and x.is_inf():
                if isinstance(op, (ast.Add, ast.Sub)) and not (isinstance(y, Pos) and y.is_inf()):
                    if isinstance(op, ast.Sub) and x is b:
                        return Pos(self.line.top - x.k, self.line, x.datum)
                    return x
                if isinstance(op, (ast.Mult, ast.Div)) and x is a:
                    s = self.sign(y)
                    if s == 1:
                        return x
                    if s == -1:
                        return Pos(self.line.top - x.k, self.line, x.datum)
                    return Arith(x)
        for x in (a, b):
            if isinstance(x, Pos) and x.datum:
                return Arith(x)
        if isinstance(a, Pos) and isinstance(b, Pos) and a.k % 2 == 0 and b.k % 2 == 0:
            if isinstance(op, ast.Sub):
                return Param(f"{a!r}-{b!r}", sign=(a.k > b.k) - (a.k < b.k))
            if isinstance(op, ast.Add):
                return Param(f"sum:{self.line.name_of(a.k)}:{self.line.name_of(b.k)}")
        if isinstance(a, Param) and a.desc.startswith("sum:") and isinstance(b, Num) and b.v == 2 and isinstance(op, ast.Div):
            _, x, y = a.desc.split(":")
            m = self.line.mids.get((x, y)) or self.line.mids.get((y, x))
            if m is not None:
                return self.line.pos_of(m)
            return Param(f"mid({x},{y})")
        for x in (a, b):
            if isinstance(x, Arith):
                return Arith(x.base)
        for x in (a, b):
            if isinstance(x, Pos):
                return Arith(x)
        if isinstance(a, Key) or isinstance(b, Key):
            return Opaque("key arithmetic")
        if isinstance(a, (Param, Num)) and isinstance(b, (Param, Num)):
            sa, sb = self.sign(a), self.sign(b)
            s = None
            if isinstance(op, (ast.Mult, ast.Div)) and sa is not None and sb is not None:
                s = sa * sb
            return Param(f"({a!r}{type(op).__name__}{b!r})", sign=s)
        if isinstance(a, (Opaque, _Unk)) or isinstance(b, (Opaque, _Unk)):
            return Opaque("arith")
        raise Unsup(f"arithmetic {a!r} {type(op).__name__} {b!r}")

    def sign(self, v):
        if isinstance(v, Num):
            return (v.v > 0) - (v.v < 0)
        if isinstance(v, Param):
            return v.sign
        return None

    # ---------------------------------------------------------------- running functions
    def call_function(self, f, args, kwargs=None, selfval=None):
        """Interpret the body of FuncInfo f with the given argument values."""
        if self.depth > 8:
            raise Unsup(f"inlining depth exceeded at {f.qualname}")
        env = {}
        a = f.node.args
        params = [p.arg for p in a.posonlyargs + a.args]
        vals = list(args)
        if selfval is not None:
            vals = [selfval] + vals
        for i, p in enumerate(params):
            if i < len(vals):
                env[p] = vals[i]
        defaults = f.defaults()
        for p in params[len(vals):]:
            if kwargs and p in kwargs:
                env[p] = kwargs[p]
            elif p in defaults:
                env[p] = self.eval(defaults[p], {}, f)
            else:
                raise Unsup(f"missing argument {p} for {f.qualname}")
        self.depth += 1
        try:
            self.exec_block(f.node.body, env, f)
        except _Return as r:
            return r.value
        finally:
            self.depth -= 1
        return None

    def exec_block(self, stmts, env, f):
        for st in stmts:
            self.exec(st, env, f)

    COVERED = set()

    def exec(self, st, env, f):
        Machine.COVERED.add((f.module.relpath, st.lineno))
        if isinstance(st, ast.Expr):
            if isinstance(st.value, ast.Constant):
                return
            self.eval(st.value, env, f)
        elif isinstance(st, ast.Assign):
            if len(st.targets) == 1 and isinstance(st.targets[0], (ast.Attribute, ast.Subscript)) and isinstance(st.value, ast.BinOp) \
                    and isinstance(st.value.op, ast.Add):
                tt = ast.unparse(st.targets[0])
                other = st.value.right if ast.unparse(st.value.left) == tt else (st.value.left if ast.unparse(st.value.right) == tt else None)
                if other is not None:
                    aug = ast.AugAssign(target=st.targets[0], op=ast.Add(), value=other)
                    ast.copy_location(aug, st)
                    return self.exec(aug, env, f)
            v = self.eval(st.value, env, f)
            for t in st.targets:
                self.assign(t, v, env, f, st)
        elif isinstance(st, ast.AugAssign):
            cur = self.eval(_load(st.target), env, f)
            v = self.eval(st.value, env, f)
            if isinstance(cur, Child) and isinstance(st.op, ast.Add):
                self.effects.append(("merge", cur.slot, v))
                return
            if isinstance(v, tuple) and v and v[0] == "rowsum":
                if isinstance(st.target, ast.Attribute):
                    self.effects.append(("acc+", st.target.attr, v))
                    return
                raise Unsup("row sum added to a non-field")
            new = self.binop(cur, st.op, v)
            self.assign(st.target, new, env, f, st, aug=(cur, v))
        elif isinstance(st, ast.If):
            c = self.decide(self.eval(st.test, env, f), why=f"line {st.lineno}: {ast.unparse(st.test)[:60]}")
            self.exec_block(st.body if c else st.orelse, env, f)
        elif isinstance(st, ast.For):
            it = self.iterate(self.eval(st.iter, env, f), st)
            broke = False
            for item in it:
                self.assign(st.target, item, env, f, st)
                try:
                    self.exec_block(st.body, env, f)
                except _Break:
                    broke = True
                    break
                except _Continue:
                    continue
            if not broke and st.orelse:
                self.exec_block(st.orelse, env, f)
        elif isinstance(st, ast.Return):
            raise _Return(self.eval(st.value, env, f) if st.value is not None else None)
        elif isinstance(st, ast.Raise):
            self.effects.append(("raise", ast.unparse(st.exc)[:60] if st.exc is not None else "re-raise"))
            raise _Raise(ast.unparse(st.exc) if st.exc is not None else "")
        elif isinstance(st, ast.Assert):
            c = self.eval(st.test, env, f)
            if c is False:
                self.effects.append(("raise", "AssertionError"))
                raise _Raise("AssertionError")
        elif isinstance(st, (ast.Pass, ast.Import, ast.ImportFrom)):
            return
        elif isinstance(st, ast.Break):
            raise _Break()
        elif isinstance(st, ast.Continue):
            raise _Continue()
        elif isinstance(st, ast.Try):
            try:
                self.exec_block(st.body, env, f)
            except _Raise:
                if not st.handlers:
                    raise
                self.exec_block(st.handlers[0].body, env, f)
        else:
            raise Unsup(f"statement {type(st).__name__} at {f.module.relpath}:{st.lineno}")

    def iterate(self, v, st):
        if isinstance(v, (list, tuple)):
            return list(v)
        if isinstance(v, UniqueKeys):
            return self.unique_iter(v)
        if isinstance(v, _UniqueHalf) and v.which == "keys":
            saved = v.uk.counts
            v.uk.counts = False
            try:
                return self.unique_iter(v.uk)
            finally:
                v.uk.counts = saved
        if isinstance(v, dict):
            return list(v.keys())
        if isinstance(v, Arr):
            return [v.row]    # the generic row
        if isinstance(v, HistResult):
            return [("hist", v, j) for j in range(len(v.bins))]
        raise Unsup(f"iteration over {v!r} at line {st.lineno}")

    def unique_iter(self, u):
        u_counts = u.counts
        """Three abstract iterations (DESIGN App. A): (A) the key of this row, the row being selected; (B) another key;
        (C) the key of this row although the row itself was not selected (another row carries the key)."""
        out = []
        sel = u.selected
        if sel is True or sel is UNK:
            out.append(UKey(True, u.row_key, True))
        out.append(UKey(False, u.row_key, sel))
        if sel is False or sel is UNK:
            out.append(UKey(True, u.row_key, False))
        if u_counts:
            return [(_Count(x), x) for x in out]
        return out

    # ---------------------------------------------------------------- assignment
    def assign(self, t, v, env, f, st, aug=None):
        if isinstance(t, ast.Name):
            env[t.id] = v
        elif isinstance(t, (ast.Tuple, ast.List)):
            vals = v
            if isinstance(v, tuple) and len(v) == 3 and v[0] == "hist":
                raise Unsup("destructuring a histogram element")
            if not isinstance(vals, (list, tuple)) or len(vals) != len(t.elts):
                raise Unsup(f"destructuring {v!r} into {ast.unparse(t)} at line {st.lineno}")
            for tt, vv in zip(t.elts, vals):
                self.assign(tt, vv, env, f, st)
        elif isinstance(t, ast.Attribute):
            base = self.eval(t.value, env, f)
            if isinstance(base, Obj) and base is self.selfobj:
                if t.attr.startswith("_"):
                    base.fields[t.attr] = v
                    return
                if aug is not None:
                    self.effects.append(("acc+", t.attr, aug[1]))
                elif isinstance(v, Inc) and v.field == t.attr and base.fields.get(t.attr) is v.base:
                    self.effects.append(("acc+", t.attr, v.amount))          # self.entries = self.entries + amount (through locals)
                else:
                    self.effects.append(("acc=", t.attr, v))
                base.fields[t.attr] = v
            elif isinstance(base, Obj):
                base.fields[t.attr] = v
            else:
                raise Unsup(f"attribute store on {base!r} at line {st.lineno}")
        elif isinstance(t, ast.Subscript):
            base = self.eval(t.value, env, f)
            if isinstance(base, Arr):
                self.arr_store(base, t.slice, v, env, f, st)
            elif isinstance(base, DictSlot):
                key = self.eval(t.slice, env, f)
                if aug is not None:
                    self.effects.append(("acc+", f"{base.slot}[{self.key_desc(key)}]", aug[1]))
                else:
                    self.effects.append(("insert", base.slot, self.key_desc(key), v))
                base.inserted[self.key_desc(key)] = v
            elif isinstance(base, list):
                idx = self.eval(t.slice, env, f)
                if isinstance(idx, Num):
                    base[idx.v] = v
                else:
                    raise Unsup(f"list store with index {idx!r}")
            else:
                raise Unsup(f"subscript store on {base!r} at line {st.lineno}")
        else:
            raise Unsup(f"assignment target {ast.unparse(t)}")

    def key_desc(self, key):
        if isinstance(key, Key):
            return f"key:{key.kind}"
        if isinstance(key, UKey):
            return "key:row" if key.same else "key:other"
        if isinstance(key, (Pos, Arith)):
            return "q"
        if isinstance(key, str):
            return repr(key)
        return repr(key)

    def arr_store(self, arr, sl, v, env, f, st):
        if arr.origin == "input":
            self.writes_to_inputs.append((st, arr.name))
        if isinstance(sl, ast.Slice) and sl.lower is None and sl.upper is None:
            arr.row = v.row if isinstance(v, Arr) else v
            return
        m = self.eval(sl, env, f)
        if isinstance(m, Arr):
            c = self.decide(m.row, why=f"line {st.lineno}: mask {ast.unparse(sl)[:40]}")
            if c:
                newv = v.row if isinstance(v, Arr) else v
                if isinstance(arr.row, W) or (isinstance(newv, Num) and newv.v == 0 and isinstance(arr.row, (W, Scaled, Opaque))):
                    if isinstance(newv, Num) and newv.v == 0:
                        arr.row = W("zero", tag="zeroed")
                        return
                if isinstance(newv, Num) and isinstance(arr.row, (Key, Num)):
                    special = {self.module_consts.get("LONG_MINUSINF"): "neginf", self.module_consts.get("LONG_PLUSINF"): "posinf",
                               self.module_consts.get("LONG_NAN"): "nan"}
                    if newv.v in special and newv.v is not None:
                        newv = Key(special[newv.v])
                arr.row = newv
            return
        raise Unsup(f"array store with index {m!r} at line {st.lineno}")

    # ---------------------------------------------------------------- expressions
    def eval(self, e, env, f):
        if isinstance(e, ast.Constant):
            if isinstance(e.value, bool) or e.value is None or isinstance(e.value, str):
                return e.value
            if isinstance(e.value, (int, float)):
                return Num(e.value)
            return Opaque("const")
        if isinstance(e, ast.Name):
            if e.id in env:
                return env[e.id]
            return self.global_name(e.id, f)
        if isinstance(e, ast.Attribute):
            return self.attribute(e, env, f)
        if isinstance(e, ast.Subscript):
            return self.subscript(e, env, f)
        if isinstance(e, ast.Call):
            return self.call(e, env, f)
        if isinstance(e, ast.Compare):
            left = self.eval(e.left, env, f)
            res = True
            for op, c in zip(e.ops, e.comparators):
                right = self.eval(c, env, f)
                r = self.elementwise(left, right, lambda x, y: self.cmp(x, op, y))
                if isinstance(r, Arr):
                    return r
                if r is False:
                    return False
                if r is UNK:
                    res = UNK
                left = right
            return res
        if isinstance(e, ast.BoolOp):
            res = isinstance(e.op, ast.And)
            for v in e.values:
                x = self.eval(v, env, f)
                if isinstance(x, Arr):
                    raise Unsup("boolean operator on arrays")
                t = self.truth(x)
                if isinstance(e.op, ast.And):
                    if t is False:
                        return False
                    if t is UNK:
                        c = self.decide(UNK, why=f"line {e.lineno}: {ast.unparse(v)[:50]}")
                        if not c:
                            return False
                else:
                    if t is True:
                        return True
                    if t is UNK:
                        c = self.decide(UNK, why=f"line {e.lineno}: {ast.unparse(v)[:50]}")
                        if c:
                            return True
            return res
        if isinstance(e, ast.UnaryOp):
            v = self.eval(e.operand, env, f)
            if isinstance(e.op, ast.Not):
                t = self.truth(v)
                return UNK if t is UNK else (not t)
            if isinstance(e.op, ast.USub):
                if isinstance(v, Num):
                    return Num(-v.v)
                if isinstance(v, Pos) and v.is_inf():
                    return Pos(self.line.top - v.k, self.line)
                return self.binop(Num(0), ast.Sub(), v)
            if isinstance(e.op, ast.Invert) and isinstance(v, Arr):
                t = self.truth(v.row)
                return Arr(UNK if t is UNK else (not t))
            raise Unsup(f"unary {type(e.op).__name__}")
        if isinstance(e, ast.BinOp):
            a, b = self.eval(e.left, env, f), self.eval(e.right, env, f)
            return self.elementwise(a, b, lambda x, y: self.binop(x, e.op, y), fresh=True)
        if isinstance(e, (ast.Tuple, ast.List)):
            items = []
            for x in e.elts:
                if isinstance(x, ast.Starred):
                    v = self.eval(x.value, env, f)
                    if not isinstance(v, (list, tuple)):
                        raise Unsup(f"unpacking of {v!r} at {f.module.relpath}:{e.lineno}")
                    items += list(v)
                else:
                    items.append(self.eval(x, env, f))
            return tuple(items) if isinstance(e, ast.Tuple) else items
        if isinstance(e, ast.Dict):
            return {"__dict__": True}
        if isinstance(e, ast.IfExp):
            t = e.test
            if isinstance(t, ast.Compare) and len(t.ops) == 1 and isinstance(t.ops[0], (ast.Lt, ast.LtE, ast.Gt, ast.GtE)):
                # `a if a < b else b` (and its mirrored forms) is min(a, b): a clamp of a bucket index
                l, r, bd, orl = (ast.unparse(x) for x in (t.left, t.comparators[0], e.body, e.orelse))
                if {l, r} == {bd, orl} and l != r:
                    picks_smaller = (bd == l) == isinstance(t.ops[0], (ast.Lt, ast.LtE))
                    va, vb = self.eval(e.body, env, f), self.eval(e.orelse, env, f)
                    for x, y in ((va, vb), (vb, va)):
                        if picks_smaller and isinstance(x, Key) and isinstance(y, (Num, Param, Opaque)):
                            return Key(x.kind, x.base, clamped=True)
            c = self.decide(self.truth(self.eval(e.test, env, f)), why=f"line {e.lineno}: {ast.unparse(e.test)[:50]}")
            return self.eval(e.body if c else e.orelse, env, f)
        if isinstance(e, (ast.ListComp, ast.GeneratorExp)):
            return self.comprehension(e, env, f)
        if isinstance(e, ast.JoinedStr):
            return "<fstring>"
        if isinstance(e, ast.Lambda):
            return Opaque("lambda")
        if isinstance(e, ast.Slice):
            raise Unsup("bare slice")
        raise Unsup(f"expression {type(e).__name__} at {f.module.relpath}:{getattr(e, 'lineno', '?')}")

    def truth(self, v):
        if v is True or v is False or v is UNK:
            return v
        if v is None:
            return False
        if isinstance(v, Num):
            return bool(v.v)
        if isinstance(v, (list, tuple, str, dict)):
            return len(v) > 0
        if isinstance(v, (Opaque, _Unk)):
            return UNK
        if isinstance(v, (Child, Obj, DictSlot)):
            return True
        if isinstance(v, Arr):
            raise Unsup("truth value of an array")
        return UNK

    def elementwise(self, a, b, fn, fresh=False):
        if isinstance(a, Arr) or isinstance(b, Arr):
            ra = a.row if isinstance(a, Arr) else a
            rb = b.row if isinstance(b, Arr) else b
            out = Arr(fn(ra, rb), "fresh")
            for x in (a, b):
                if isinstance(x, Arr) and hasattr(x, "selected_by"):
                    out.selected_by = x.selected_by
            return out
        return fn(a, b)

    def comprehension(self, e, env, f):
        if len(e.generators) != 1:
            raise Unsup("nested comprehension")
        g = e.generators[0]
        it = self.iterate(self.eval(g.iter, env, f), e)
        out = []
        for item in it:
            env2 = dict(env)
            self.assign(g.target, item, env2, f, e)
            ok = True
            for cond in g.ifs:
                c = self.decide(self.truth(self.eval(cond, env2, f)), why="comprehension filter")
                ok = ok and c
            if ok:
                out.append(self.eval(e.elt, env2, f))
        return out

    # ---------------------------------------------------------------- names / attributes / subscripts
    def global_name(self, name, f):
        if name in ("True", "False", "None"):
            return {"True": True, "False": False, "None": None}[name]
        m = f.module
        if name in m.assigns:
            v = m.assigns[name]
            if isinstance(v, ast.Constant) and isinstance(v.value, (int, float)):
                self.module_consts[name] = v.value
                return Num(v.value)
            if isinstance(v, ast.UnaryOp) and isinstance(v.op, ast.USub) and isinstance(v.operand, ast.Constant):
                self.module_consts[name] = -v.operand.value
                return Num(-v.operand.value)
        r = self.repo.resolve_name(m, name)
        if isinstance(r, (ClassInfo, FuncInfo)):
            return r
        if isinstance(r, tuple) and r and r[0] == "extmodule":
            return ("module", r[1])
        if isinstance(r, tuple) and r and r[0] == "assign":
            v = r[2]
            if isinstance(v, ast.Name) and v.id in ("str", "int", "range"):
                return ("builtin", v.id)
            if isinstance(v, ast.Call):
                return ("global", name)
        if hasattr(r, "tree"):
            return ("module", r.name)
        if name in ("basestring", "long", "xrange"):
            return ("builtin", {"basestring": "str", "long": "int", "xrange": "range"}[name])
        import builtins

        if hasattr(builtins, name):
            return ("builtin", name)
        if name == "identity":
            return ("global", "identity")
        raise Unsup(f"name `{name}` in {f.qualname}")

    def attribute(self, e, env, f):
        base = self.eval(e.value, env, f)
        a = e.attr
        if isinstance(base, Obj):
            if a in base.fields:
                return base.fields[a]
            r = self.repo.lookup(base.cls, a)
            if isinstance(r, FuncInfo) and r.is_property:
                return self.call_function(r, [], selfval=base)
            if isinstance(r, FuncInfo):
                return ("bound", r, base)
            raise Unsup(f"attribute {a} of the node in {f.qualname}")
        if isinstance(base, tuple) and base and base[0] == "module":
            return ("modattr", base[1], a)
        if isinstance(base, tuple) and base and base[0] == "modattr":
            return ("modattr", base[1] + "." + base[2], a)
        if isinstance(base, Child):
            if a in ("fill", "_numpy", "fillnumpy"):
                return ("childmethod", base, a)
            if a == "transform":
                return ("global", "identity") if self.knobs.get("identity_transform", True) else Opaque("transform")
            if a in ("zero", "copy"):
                return ("childmethod", base, a)
            if a == "entries":
                return Opaque("child.entries")
            return Opaque(f"{base.slot}.{a}")
        if isinstance(base, Arr):
            if a == "shape":
                if self.knobs.get("single_row"):
                    # a batch of exactly one row: the (masked) array has 1 element iff the row is selected
                    sel = getattr(base, "selected_by", True)
                    return [Num(1) if sel is True else Num(0) if sel is False else Opaque("n")]
                return [Opaque("n")]
            if a in ("sum", "copy", "min", "max", "tolist", "any", "all", "astype"):
                return ("arrmethod", base, a)
            if a == "dtype":
                return Opaque("dtype")
            if a == "ndim":
                return Num(1)       # the model's batches are one-dimensional (len(shape) == 1, as `shape` above)
            if a == "size":
                return Opaque("n")
        if isinstance(base, DictSlot):
            if a in ("get", "items", "values", "keys"):
                return ("dictmethod", base, a)
        if isinstance(base, UKey):
            return Opaque("ukey attr")
        if isinstance(base, list) and a in ("append", "extend", "insert", "index", "count"):
            return ("listmethod", base, a)
        if isinstance(base, dict) and a in ("values", "keys", "items", "get"):
            return ("pydictmethod", base, a)
        if isinstance(base, (Opaque, _Unk)):
            return Opaque(f"{base!r}.{a}")
        if isinstance(base, tuple) and base and base[0] == "global":
            return Opaque(f"{base[1]}.{a}")
        raise Unsup(f"attribute `{a}` of {base!r} at {f.module.relpath}:{e.lineno}")

    def subscript(self, e, env, f):
        base = self.eval(e.value, env, f)
        if isinstance(e.slice, ast.Slice):
            lo = self.eval(e.slice.lower, env, f) if e.slice.lower is not None else None
            hi = self.eval(e.slice.upper, env, f) if e.slice.upper is not None else None
            if isinstance(base, (list, tuple)):
                return base[(lo.v if isinstance(lo, Num) else None):(hi.v if isinstance(hi, Num) else None)]
            raise Unsup(f"slice of {base!r}")
        idx = self.eval(e.slice, env, f)
        if isinstance(base, (list, tuple)):
            if isinstance(idx, Num):
                try:
                    return base[int(idx.v)]
                except IndexError:
                    self.effects.append(("raise", "IndexError"))
                    raise _Raise("IndexError")
            if isinstance(idx, Key):
                if idx.kind == "in":
                    if not all(isinstance(x, Child) for x in base):
                        raise Unsup("bucket index into a non-child sequence")
                    self.effects.append(("index", "in-range bucket", idx.clamped))
                    return Child(base[0].slot.split("[")[0] + "[*]")
                self.effects.append(("raise", f"IndexError: bucket {idx.kind} used as an index"))
                raise _Raise("IndexError")
            if idx is None or isinstance(idx, (Opaque, _Unk)):
                self.effects.append(("raise", "TypeError/IndexError: index is not an in-range integer"))
                raise _Raise("IndexError")
            raise Unsup(f"index {idx!r} into a sequence at line {e.lineno}")
        if isinstance(base, DictSlot):
            kd = self.key_desc(idx)
            if kd in base.inserted:
                return base.inserted[kd]
            if base.scalar:
                return Opaque(f"{base.slot}[{kd}]")
            return Child(f"{base.slot}[{kd}]")
        if isinstance(base, Arr):
            if isinstance(idx, Arr):
                # boolean-mask indexing: a fresh array holding the selected rows; the generic row survives iff selected
                r = Arr(base.row, "fresh", base.name)
                r.selected_by = idx.row
                return r
            return Opaque("array element")
        if isinstance(base, (Opaque, _Unk)):
            return Opaque("subscript")
        raise Unsup(f"subscript of {base!r} at {f.module.relpath}:{e.lineno}")

    # ---------------------------------------------------------------- calls
    def call(self, e, env, f):
        fn = self.eval(e.func, env, f) if not isinstance(e.func, ast.Name) or e.func.id in env else self.global_name(e.func.id, f)
        args = [self.eval(a, env, f) for a in e.args if not isinstance(a, ast.Starred)]
        kwargs = {k.arg: self.eval(k.value, env, f) for k in e.keywords if k.arg}
        if isinstance(fn, tuple):
            kind = fn[0]
            if kind == "bound":
                return self.bound_call(fn[1], fn[2], args, kwargs, e, f)
            if kind == "childmethod":
                child, m = fn[1], fn[2]
                if m in ("fill", "_numpy", "fillnumpy"):
                    w = args[1] if len(args) > 1 else Num(1.0)
                    wv = w.row if isinstance(w, Arr) else w
                    if isinstance(wv, _Count):
                        # the row contributes 1 to the count of its own key iff it was among the selected rows
                        wv = W("one", tag="count") if (wv.ukey.same and wv.ukey.selfsel is True) else W("zero", tag="count")
                    if isinstance(wv, tuple) and wv and wv[0] in ("hist", "histw"):
                        _, h, j = wv
                        c = h.contrib
                        if c is None:
                            wv = W("zero", tag="hist")
                        elif c[0] == "*":
                            # np.histogram with a range: the row lands in exactly one (unspecified) bin
                            if self.bucket is None:
                                n = len(h.bins)
                                if j >= n - 1 or self.decide(UNK, why=f"row falls into histogram bin {j}?"):
                                    self.bucket = j
                            wv = c[1] if self.bucket == j else W("zero", tag="hist")
                        else:
                            wv = c[1] if c[0] == j else W("zero", tag="hist")
                    sel = getattr(w, "selected_by", True) if isinstance(w, Arr) else True
                    self.effects.append(("fill", child.slot, wv, m, sel))
                    if m == "_numpy" and len(args) > 2 and isinstance(args[2], list) and len(args[2]) == 1:
                        # the shared shape cell: a Count with a scalar weight multiplies by shape[0] and counts the weight ONCE when it is
                        # still None; any other child evaluates its quantity and thereby fixes the batch length
                        cell = args[2]
                        if self.child_is_count(child):
                            if not isinstance(w, Arr):
                                self.effects.append(("count-length", child.slot, cell[0] is not None))
                        elif cell[0] is None:
                            cell[0] = Opaque("n")
                    return None
                if m in ("zero", "copy"):
                    self.fresh_counter = getattr(self, "fresh_counter", 0) + 1
                    return Child(f"new:{child.slot}#{self.fresh_counter}")
            if kind == "builtin":
                return self.builtin(fn[1], args, kwargs, e, env, f)
            if kind == "modattr":
                return self.library(fn[1], fn[2], args, kwargs, e, env, f)
            if kind == "arrmethod":
                return self.arr_method(fn[1], fn[2], args, kwargs, e)
            if kind == "dictmethod":
                d, m = fn[1], fn[2]
                if m == "get":
                    kd = self.key_desc(args[0])
                    if kd in d.inserted:
                        return d.inserted[kd]
                    c = self.decide(UNK, why=f"line {e.lineno}: key already in {d.slot}?")
                    return Child(f"{d.slot}[{kd}]") if c else (args[1] if len(args) > 1 else None)
                raise Unsup(f"dict method {m}")
            if kind == "global":
                if fn[1] == "identity" and len(args) == 1:
                    return args[0]
                return Opaque(f"{fn[1]}()")
            if kind == "quantity":
                self.effects.append(("user", fn[1]))
                return self.q_value if fn[1] == "quantity" else (args[0] if args else Opaque("transform"))
            if kind == "listmethod":
                lst, m = fn[1], fn[2]
                if m == "append" and len(args) == 1:
                    lst.append(args[0])          # Python lists of the interpreted function are Python lists here
                    return None
                if m == "extend" and len(args) == 1 and isinstance(args[0], (list, tuple)):
                    lst.extend(args[0])
                    return None
                if m == "insert" and len(args) == 2 and isinstance(args[0], Num):
                    lst.insert(int(args[0].v), args[1])
                    return None
                raise Unsup(f"list method {m}")
            if kind == "pydictmethod":
                d, m = fn[1], fn[2]
                if m == "values":
                    return list(d.values())
                if m == "keys":
                    return list(d.keys())
                if m == "items":
                    return [(k, v) for k, v in d.items()]
                if m == "get":
                    return d.get(args[0], args[1] if len(args) > 1 else None) if isinstance(args[0], str) else UNK
                raise Unsup(f"dict method {m}")
        if isinstance(fn, FuncInfo):
            return self.call_function(fn, args, kwargs)
        if isinstance(fn, ClassInfo):
            return Opaque(f"new {fn.name}")
        if isinstance(fn, (Opaque, _Unk)):
            return Opaque("call")
        raise Unsup(f"call of {fn!r} at {f.module.relpath}:{e.lineno}")

    def bound_call(self, m, obj, args, kwargs, e, f):
        if m.name in ("quantity", "transform"):
            raise Unsup("quantity as method")
        if m.name == "_checkForCrossReferences":
            return None
        return self.call_function(m, args, kwargs, selfval=obj)

    def builtin(self, name, args, kwargs, e, env, f):
        if name == "isinstance":
            return self.isinstance(args[0], e.args[1], env, f)
        if name == "len":
            v = args[0]
            if isinstance(v, (list, tuple, str)):
                return Num(len(v))
            return Opaque("len")
        if name in ("range", "xrange"):
            if all(isinstance(a, Num) for a in args):
                return [Num(i) for i in range(*[int(a.v) for a in args])]
            raise Unsup("range over a non-constant")
        if name == "zip":
            if args and all(isinstance(a, _UniqueHalf) for a in args):
                uk = args[0].uk
                out = []
                for cnt, key in self.unique_iter(uk):
                    out.append(tuple(cnt if a.which == "counts" else key for a in args))
                return out
            lists = [self.iterate(a, e) for a in args]
            return [tuple(x) for x in zip(*lists)]
        if name == "enumerate":
            if isinstance(args[0], _UniqueHalf):
                uk = args[0].uk
                saved = uk.counts
                uk.counts = False
                keys = self.unique_iter(uk)
                uk.counts = saved
                return [(_IdxOf(k), k) for k in keys]
            return [(Num(i), x) for i, x in enumerate(self.iterate(args[0], e))]
        if name in ("float", "int"):
            v = args[0]
            if isinstance(v, str):
                s = v.strip().lower()
                if s in ("nan", "+nan", "-nan"):
                    return NAN
                if s in ("inf", "+inf", "infinity"):
                    return self.line.pos_of("+inf")
                if s in ("-inf", "-infinity"):
                    return self.line.pos_of("-inf")
                return Opaque("float(str)")
            if name == "int" and isinstance(v, Arith):
                return self.to_bucket(v)
            if name == "int" and isinstance(v, Num):
                return Num(int(v.v))
            if isinstance(v, tuple) and v and v[0] == "hist":
                _, h, j = v
                return ("histw", h, j)
            if isinstance(v, _Count):
                return v
            return v
        if name in ("min", "max"):
            if len(args) == 2:
                a, b = args
                if isinstance(a, Num) and isinstance(b, Num):
                    return Num(min(a.v, b.v) if name == "min" else max(a.v, b.v))
                for x, y in ((a, b), (b, a)):
                    if isinstance(x, Key) and isinstance(y, (Num, Param, Opaque)):
                        return Key(x.kind, x.base, clamped=True)
                if (isinstance(a, Pos) or is_nan(a)) and (isinstance(b, Pos) or is_nan(b)):
                    # Python's min/max: `b if b < a else a` (min), `b if b > a else a` (max); comparisons with NaN are False
                    t = self.cmp(b, ast.Lt() if name == "min" else ast.Gt(), a)
                    if t is True:
                        return b
                    if t is False:
                        return a
                return Opaque(name)
            return Opaque(name)
        if name == "bool":
            t = self.truth(args[0]) if args else False
            return t
        if name in ("all", "any"):
            v = args[0]
            if isinstance(v, list):
                ts = [self.truth(x) for x in v]
                if name == "all":
                    return False if any(t is False for t in ts) else (UNK if any(t is UNK for t in ts) else True)
                return True if any(t is True for t in ts) else (UNK if any(t is UNK for t in ts) else False)
            return UNK
        if name in ("tuple", "list"):
            v = args[0] if args else []
            return tuple(self.iterate(v, e)) if name == "tuple" else list(self.iterate(v, e))
        if name in ("str", "repr", "hash", "abs", "round", "sorted", "sum", "set", "dict", "hasattr", "getattr", "callable", "id", "type"):
            return Opaque(name)
        raise Unsup(f"builtin {name} at line {e.lineno}")

    def isinstance(self, v, texpr, env, f):
        if isinstance(v, UKey):
            if not v.same:
                return UNK
            v = v.row_key
        names = [ast.unparse(x) for x in (texpr.elts if isinstance(texpr, ast.Tuple) else [texpr])]
        res = False
        for n in names:
            last = n.split(".")[-1]
            if last in ("ndarray",):
                r = isinstance(v, Arr)
            elif last in ("Real", "Number", "float", "int", "long", "number"):
                if isinstance(v, (Pos, Num, Arith, W, Scaled, Param)) or v is NAN:
                    r = True
                elif isinstance(v, bool):
                    r = True
                elif isinstance(v, (Opaque, _Unk)):
                    r = UNK
                else:
                    r = False
            elif last in ("basestring", "str"):
                r = isinstance(v, str)
            elif last == "bool":
                r = isinstance(v, bool)
            elif last in ("list", "tuple"):
                r = isinstance(v, (list, tuple)) and not (isinstance(v, tuple) and v and isinstance(v[0], str) and v[0] in ("hist", "histw"))
            elif last == "dict":
                r = isinstance(v, dict)
            elif last == "Count":
                if isinstance(v, Child):
                    r = self.child_is_count(v)
                else:
                    r = False
            elif last == "Container":
                r = isinstance(v, (Child, Obj))
            else:
                raise Unsup(f"isinstance against {n}")
            if r is True:
                return True
            if r is UNK:
                res = UNK
        return res

    def child_is_count(self, child):
        k = self.knobs.get("children_count", False)
        if k == "mixed":
            return "[0]" in child.slot        # the first child of a sequence is a Count, its siblings are not
        return bool(k)

    def to_bucket(self, v):
        if isinstance(v, Arith):
            b = v.base
            if b is NAN:
                return Key("nan", b)
            lo, hi = self.knobs.get("range_lo"), self.knobs.get("range_hi")
            if lo is not None and isinstance(b, Pos):
                inr = self.line.pos_of(lo).k <= b.k < self.line.pos_of(hi).k
                return Key("in" if inr else "out", b)
            if isinstance(b, Pos) and b.k == 0:
                return Key("neginf", b)
            if isinstance(b, Pos) and b.is_inf():
                return Key("posinf", b)
            return Key("floor", b)
        return v

    def arr_method(self, arr, m, args, kwargs, e):
        if m in ("sum", "min", "max"):
            self.effects.append(("reduce", m, arr.row, getattr(arr, "selected_by", True)))
        if m == "sum":
            return ("rowsum", arr.row, getattr(arr, "selected_by", True))
        if m == "copy":
            r = Arr(arr.row, "fresh", arr.name)
            return r
        if m in ("min", "max"):
            if self.knobs.get("single_row") and getattr(arr, "selected_by", True) is True:
                return arr.row         # the extremum of a one-row batch is that row
            return Opaque(m)
        if m in ("any", "all"):
            t = self.truth(arr.row)
            if m == "any":
                return True if t is True else UNK     # other rows may be True
            return False if t is False else UNK
        if m == "tolist":
            return arr.row
        if m == "astype":
            return Arr(arr.row, "fresh", arr.name)
        raise Unsup(f"array method {m}")

    # ---------------------------------------------------------------- numpy / math library summaries
    def library(self, mod, name, args, kwargs, e, env, f):
        full = f"{mod}.{name}"
        base = mod.split(".")[0]
        if base == "math":
            v = args[0]
            if name == "isnan":
                return is_nan(v) if not isinstance(v, (Opaque, _Unk)) else UNK
            if name == "isinf":
                if isinstance(v, Pos):
                    return v.is_inf()
                if is_nan(v):
                    return False
                if isinstance(v, (Num, Param)):
                    return False
                return UNK
            if name == "isfinite":
                # not NaN and not infinite
                if isinstance(v, (Opaque, _Unk)):
                    return UNK
                if is_nan(v):
                    return False
                if isinstance(v, Pos):
                    inf = v.is_inf()
                    return UNK if inf is UNK else (not inf)
                if isinstance(v, (Num, Param)):
                    return True
                return UNK
            if name == "floor":
                return v
            raise Unsup(f"math.{name}")
        if base in ("numpy", "np"):
            return self.numpy(name, args, kwargs, e, env, f)
        if base == "numbers":
            return Opaque(full)
        if base == "bisect":
            raise Unsup("bisect in a routing path")
        raise Unsup(f"library call {full}")

    def row(self, v):
        return v.row if isinstance(v, Arr) else v

    def out(self, args, kwargs, idx, row):
        """ufunc out= parameter (positional idx or keyword): store the row there (aliasing) and return it."""
        tgt = kwargs.get("out") if "out" in kwargs else (args[idx] if len(args) > idx else None)
        if isinstance(tgt, Arr):
            if tgt.origin == "input":
                self.writes_to_inputs.append((None, tgt.name))
            tgt.row = row
            return tgt
        return Arr(row, "fresh")

    def numpy(self, name, args, kwargs, e, env, f):
        r = self.row
        if name in ("isnan", "isfinite", "isneginf", "isposinf", "isinf"):
            v = r(args[0])
            if isinstance(v, UKey):
                if not v.same:
                    return UNK
                v = v.row_key

            def pred(x):
                if isinstance(x, (Opaque, _Unk)):
                    return UNK
                nan = is_nan(x)
                inf = isinstance(x, Pos) and x.is_inf()
                neg = inf and x.k == 0
                if isinstance(x, W):
                    nan, inf, neg = x.cls == "nan", False, False
                return {"isnan": nan, "isfinite": not nan and not inf, "isneginf": neg, "isposinf": inf and not neg, "isinf": inf}[name]

            res = pred(v)
            if isinstance(args[0], Arr):
                return Arr(res, "fresh")
            return res
        if name == "bitwise_not":
            t = self.truth(r(args[0]))
            return self.out(args, kwargs, 1, UNK if t is UNK else (not t))
        if name in ("bitwise_and", "bitwise_or", "logical_and", "logical_or"):
            a, b = self.truth(r(args[0])), self.truth(r(args[1]))
            if "and" in name:
                res = False if (a is False or b is False) else (UNK if (a is UNK or b is UNK) else True)
            else:
                res = True if (a is True or b is True) else (UNK if (a is UNK or b is UNK) else False)
            return self.out(args, kwargs, 2, res)
        if name in ("greater_equal", "greater", "less", "less_equal", "equal", "not_equal"):
            op = {"greater_equal": ast.GtE(), "greater": ast.Gt(), "less": ast.Lt(), "less_equal": ast.LtE(), "equal": ast.Eq(),
                  "not_equal": ast.NotEq()}[name]
            a, b = r(args[0]), r(args[1])
            if isinstance(a, Key) and isinstance(b, UKey):
                res = b.same if isinstance(op, ast.Eq) else (not b.same)
            elif isinstance(b, UKey) or isinstance(a, UKey):
                res = UNK
            elif isinstance(a, Key) and isinstance(b, Num) and a.kind in ("in",):
                # the row belongs to exactly one in-range bucket: which one is chosen once per path (n paths)
                n = int(self.knobs.get("nbuckets", 0))
                i = int(b.v)
                if self.bucket is None:
                    if i >= n - 1:
                        self.bucket = i
                    elif self.decide(UNK, why=f"row falls into bucket {i}?"):
                        self.bucket = i
                eq = self.bucket == i
                res = eq if isinstance(op, ast.Eq) else (not eq) if isinstance(op, ast.NotEq) else UNK
            elif isinstance(a, _Inverse) and isinstance(b, _IdxOf):
                eq = b.ukey.same
                res = eq if isinstance(op, ast.Eq) else (not eq) if isinstance(op, ast.NotEq) else UNK
            else:
                res = self.cmp(a, op, b)
            return self.out(args, kwargs, 2, res)
        if name == "array":
            v = args[0]
            if isinstance(v, Arr):
                nr = Arr(v.row, "fresh", v.name)
                dt = kwargs.get("dtype")
                dts = ast.unparse([k.value for k in e.keywords if k.arg == "dtype"][0]) if any(k.arg == "dtype" for k in e.keywords) else ""
                if dts.endswith("int") or dts.endswith("int64"):
                    nr.row = self.to_bucket(v.row) if isinstance(v.row, Arith) else (
                        Key("nan", NAN) if v.row is NAN else self.inf_key(v.row))
                return nr
            if isinstance(v, list):
                return Arr(v[0] if v else Opaque("empty"), "fresh")
            return Arr(v, "fresh")
        if name in ("subtract", "multiply", "divide", "add"):
            op = {"subtract": ast.Sub(), "multiply": ast.Mult(), "divide": ast.Div(), "add": ast.Add()}[name]
            return self.out(args, kwargs, 2, self.binop(r(args[0]), op, r(args[1])))
        if name == "floor":
            return self.out(args, kwargs, 1, r(args[0]))
        if name in ("empty", "zeros"):
            return Arr(Opaque("uninitialised") if name == "empty" else Num(0), "fresh")
        if name == "ones":
            return Arr(Num(1.0), "fresh")
        if name in ("all", "any"):
            v = args[0]
            t = self.truth(r(v))
            if name == "all":
                return False if t is False else UNK   # depends on the other rows
            return True if t is True else UNK
        if name == "sum":
            v = args[0]
            self.effects.append(("reduce", "sum", r(v), getattr(v, "selected_by", True)))
            return ("rowsum", r(v), getattr(v, "selected_by", True))
        if name == "histogram":
            return self.histogram(args, kwargs, e)
        if name == "unique":
            v = args[0]
            sel = getattr(v, "selected_by", True)
            selected = self.truth(sel) if sel is not True else True
            uk = UniqueKeys(r(v), selected, counts=bool(kwargs.get("return_counts")), inverse=bool(kwargs.get("return_inverse")))
            if kwargs.get("return_counts"):
                return (_UniqueHalf(uk, "keys"), _UniqueHalf(uk, "counts"))
            if kwargs.get("return_inverse"):
                return (_UniqueHalf(uk, "keys"), Arr(_Inverse(uk), "fresh"))
            return uk
        if name == "average":
            v = args[0]
            self.effects.append(("reduce", "average", r(v), getattr(v, "selected_by", True)))
            return Opaque("average")
        if name in ("float64", "int64"):
            return args[0] if args else Opaque(name)
        raise Unsup(f"numpy.{name} at {f.module.relpath}:{e.lineno}")

    def inf_key(self, v):
        if isinstance(v, Pos) and v.k == 0:
            return Key("neginf", v)
        if isinstance(v, Pos) and v.is_inf():
            return Key("posinf", v)
        if isinstance(v, Key):
            return v
        return Key("floor", v)

    def histogram(self, args, kwargs, e):
        q = self.row(args[0])
        weights = kwargs.get("weights")
        w = self.row(weights) if weights is not None else Num(1.0)
        bins = args[1]
        rng = args[2] if len(args) > 2 else kwargs.get("range")
        if isinstance(bins, list):
            # explicit edges: [e_i, e_{i+1}) and the last bin closed
            edges = bins
            n = len(edges) - 1
            hit = None
            if isinstance(q, Pos):
                for j in range(n):
                    lo, hi = edges[j], edges[j + 1]
                    ge = self.cmp(q, ast.GtE(), lo)
                    lt = self.cmp(q, ast.Lt(), hi) if j < n - 1 else self.cmp(q, ast.LtE(), hi)
                    if ge is True and lt is True:
                        hit = j
                    elif ge is UNK or lt is UNK:
                        raise Unsup("histogram edge comparison undecided")
            return (HistResult((hit, w) if hit is not None else None, list(range(n))), Opaque("edges"))
        if isinstance(bins, Num) and isinstance(rng, tuple) and len(rng) == 2:
            lo, hi = rng
            n = int(bins.v)
            inr = False
            if isinstance(q, Pos):
                a = self.cmp(q, ast.GtE(), lo)
                b = self.cmp(q, ast.LtE(), hi)   # numpy closes the last bin on the right
                if a is UNK or b is UNK:
                    raise Unsup("histogram range comparison undecided")
                inr = a and b
            return (HistResult(("*", w) if inr else None, list(range(n))), Opaque("edges"))
        raise Unsup("np.histogram form")


class _Count:
    """Number of selected rows carrying this row's key: the row contributes 1 if it was selected."""

    def __init__(self, ukey):
        self.ukey = ukey

    def __repr__(self):
        return "count(row key)"


class _IdxOf:
    """Position of an abstract unique key in the array of unique keys."""

    def __init__(self, ukey):
        self.ukey = ukey


class _UniqueHalf:
    def __init__(self, uk, which):
        self.uk = uk
        self.which = which


class _Inverse:
    def __init__(self, uk):
        self.uk = uk


def _load(t):
    import copy

    n = copy.copy(t)
    n.ctx = ast.Load()
    return n


def explore(make_machine, entry, max_paths=Machine.MAX_PATHS):
    """Enumerate all paths: entry(machine) runs the function once under the machine's oracle.
    Returns list of (effects, choices, outcome, machine)."""
    results = []
    pending = [[]]
    while pending:
        oracle = pending.pop()
        m = make_machine()
        m.oracle = oracle
        outcome = "return"
        try:
            entry(m)
        except _Raise as r:
            outcome = "raise"
        except _Return:
            outcome = "return"
        results.append((m.effects, [c for c, _ in m.choices], outcome, m))
        # schedule the alternatives of the choices made beyond the oracle prefix
        for i in range(len(oracle), len(m.choices)):
            alt = [c for c, _ in m.choices[:i]] + [not m.choices[i][0]]
            pending.append(alt)
        if len(results) > max_paths:
            raise Unsup(f"more than {max_paths} paths")
    return results
