"""Per-key evaluation of a dictionary merge loop.

    for k, c in SRC.items():          (SRC = <other>.<field>)
        <body storing into DST[k]>    (DST = <self>.<field>, or a local that holds a dict copy of it)

The body is evaluated twice - with `k` present in DST (DST[k] = S) and absent - over linear forms in the symbols S (the
destination's old value at k) and C (the source's value at k).  The merge is right when the new DST[k] is S + C for a key on
both sides and C for a key only on the right.  Anything outside the small statement/expression language gives Undecided.
"""
import ast


class Undecided(Exception):
    pass


class KeyMissing(Exception):
    pass


def _lin(**kw):
    return {k: v for k, v in kw.items() if v}


def _add(a, b, sign=1):
    out = dict(a)
    for k, v in b.items():
        out[k] = out.get(k, 0) + sign * v
    return {k: v for k, v in out.items() if v}


class KeyedMerge:
    def __init__(self, loop, dst_test, src_test):
        """dst_test(expr) / src_test(expr): is this expression the destination / source dictionary?"""
        self.loop = loop
        self.is_dst = dst_test
        self.is_src = src_test
        it = loop.iter
        self.k = self.c = None
        if isinstance(it, ast.Call) and isinstance(it.func, ast.Attribute) and it.func.attr == "items" and src_test(it.func.value) and not it.args:
            t = loop.target
            if isinstance(t, ast.Tuple) and len(t.elts) == 2 and all(isinstance(e, ast.Name) for e in t.elts):
                self.k, self.c = t.elts[0].id, t.elts[1].id
        elif src_test(it) or (isinstance(it, ast.Call) and isinstance(it.func, ast.Attribute) and it.func.attr == "keys" and src_test(it.func.value)):
            if isinstance(loop.target, ast.Name):
                self.k = loop.target.id
        if self.k is None:
            raise Undecided("loop header is not `for k, c in <source>.items()` / `for k in <source>`")

    def is_key(self, e):
        return isinstance(e, ast.Name) and e.id == self.k

    def ev(self, e, st):
        if isinstance(e, ast.Constant) and isinstance(e.value, (int, float)) and not isinstance(e.value, bool):
            if e.value != e.value:
                raise Undecided("NaN constant")
            return _lin(one=e.value)
        if isinstance(e, ast.Name):
            if e.id == self.c:
                return _lin(C=1)
            if e.id in st["loc"]:
                return st["loc"][e.id]
            raise Undecided(f"name {e.id}")
        if isinstance(e, ast.Subscript) and self.is_key(e.slice):
            if self.is_dst(e.value):
                if st["dst"] is None:
                    raise KeyMissing()
                return st["dst"]
            if self.is_src(e.value):
                return _lin(C=1)
        if isinstance(e, ast.Call) and isinstance(e.func, ast.Attribute) and e.func.attr == "get" and e.args and self.is_key(e.args[0]) and not e.keywords:
            if self.is_dst(e.func.value):
                if st["dst"] is not None:
                    return st["dst"]
                if len(e.args) == 2:
                    return self.ev(e.args[1], st)
                raise Undecided("get() without default on a missing key")
            if self.is_src(e.func.value):
                return _lin(C=1)
        if isinstance(e, ast.BinOp) and isinstance(e.op, (ast.Add, ast.Sub)):
            return _add(self.ev(e.left, st), self.ev(e.right, st), 1 if isinstance(e.op, ast.Add) else -1)
        if isinstance(e, ast.IfExp):
            return self.ev(e.body if self.test(e.test, st) else e.orelse, st)
        raise Undecided(ast.dump(e)[:80])

    def test(self, t, st):
        if isinstance(t, ast.UnaryOp) and isinstance(t.op, ast.Not):
            return not self.test(t.operand, st)
        if isinstance(t, ast.Compare) and len(t.ops) == 1 and self.is_key(t.left):
            rhs = t.comparators[0]
            if isinstance(rhs, ast.Call) and isinstance(rhs.func, ast.Attribute) and rhs.func.attr == "keys" and not rhs.args:
                rhs = rhs.func.value
            if self.is_dst(rhs) and isinstance(t.ops[0], (ast.In, ast.NotIn)):
                present = st["dst"] is not None
                return present if isinstance(t.ops[0], ast.In) else not present
        raise Undecided("test " + ast.dump(t)[:80])

    def run(self, body, st):
        for s in body:
            if isinstance(s, ast.If):
                self.run(s.body if self.test(s.test, st) else s.orelse, st)
            elif isinstance(s, ast.Try) and not s.finalbody and not s.orelse and len(s.handlers) == 1 and self._catches_keyerror(s.handlers[0]):
                snap = {"dst": st["dst"], "loc": dict(st["loc"])}
                try:
                    self.run(s.body, st)
                except KeyMissing:
                    st.clear()
                    st.update(snap)
                    self.run(s.handlers[0].body, st)
            elif isinstance(s, ast.AugAssign) and isinstance(s.op, (ast.Add, ast.Sub)):
                sign = 1 if isinstance(s.op, ast.Add) else -1
                if isinstance(s.target, ast.Subscript) and self.is_key(s.target.slice) and self.is_dst(s.target.value):
                    if st["dst"] is None:
                        raise KeyMissing()
                    st["dst"] = _add(st["dst"], self.ev(s.value, st), sign)
                elif isinstance(s.target, ast.Name) and s.target.id in st["loc"]:
                    st["loc"][s.target.id] = _add(st["loc"][s.target.id], self.ev(s.value, st), sign)
                else:
                    raise Undecided("augmented target")
            elif isinstance(s, ast.Assign) and len(s.targets) == 1:
                t = s.targets[0]
                if isinstance(t, ast.Subscript) and self.is_key(t.slice) and self.is_dst(t.value):
                    st["dst"] = self.ev(s.value, st)
                elif isinstance(t, ast.Name) and t.id not in (self.k, self.c):
                    st["loc"][t.id] = self.ev(s.value, st)
                else:
                    raise Undecided("assignment target")
            elif isinstance(s, ast.Expr) and isinstance(s.value, ast.Call) and isinstance(s.value.func, ast.Attribute) \
                    and s.value.func.attr == "setdefault" and self.is_dst(s.value.func.value) and len(s.value.args) == 2 and self.is_key(s.value.args[0]):
                if st["dst"] is None:
                    st["dst"] = self.ev(s.value.args[1], st)
            elif isinstance(s, ast.Pass):
                pass
            else:
                raise Undecided(type(s).__name__)

    @staticmethod
    def _catches_keyerror(h):
        return h.type is not None and isinstance(h.type, ast.Name) and h.type.id == "KeyError" and h.name is None

    def outcomes(self):
        """{'both': linear form of the new DST[k], 'right-only': ...}; a KeyError escaping is reported as the string 'KeyError'."""
        out = {}
        for label, dst in (("both", _lin(S=1)), ("right-only", None)):
            st = {"dst": dst, "loc": {}}
            try:
                self.run(self.loop.body, st)
                out[label] = st["dst"]
            except KeyMissing:
                out[label] = "KeyError"
        return out


def show(form):
    if form is None:
        return "no entry"
    if isinstance(form, str):
        return form
    names = {"S": "self[k]", "C": "other[k]", "one": "1"}
    parts = []
    for k in ("S", "C", "one"):
        v = form.get(k)
        if v:
            parts.append(names[k] if v == 1 and k != "one" else (f"{v}" if k == "one" else f"{v}*{names[k]}"))
    return " + ".join(parts) or "0"


WANT = {"both": {"S": 1, "C": 1}, "right-only": {"C": 1}}
