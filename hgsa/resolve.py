"""Attribute resolution in composed classes (shared rule R13.1 / R17.1 / R11.3).

For every class C (and every repository subclass that composes C with mixins) the set of attribute names that an
instance can have is: methods/properties/class attributes along the MRO, names stored through `self.x = ...` in any
method along the MRO, and names stored on freshly constructed instances (`out = K(...); out.x = ...`).  A load of
`self.x` inside a method of C that is in none of these sets cannot resolve (AttributeError at run time).
"""

import ast

from .astutil import walk_local_stmt

OBJECT_ATTRS = {
    "__class__", "__dict__", "__doc__", "__module__", "__name__", "__init__", "__new__", "__repr__", "__str__",
    "__hash__", "__eq__", "__ne__", "__getattribute__", "__setattr__", "__delattr__", "__reduce__", "__reduce_ex__",
    "__getstate__", "__setstate__", "__sizeof__", "__dir__", "__format__", "__subclasshook__", "__init_subclass__",
    "__lt__", "__le__", "__gt__", "__ge__", "__call__", "__qualname__", "__weakref__", "__slots__", "__annotations__",
}


def instance_attr_stores(repo):
    """class name -> set of attribute names stored on instances anywhere in the package (cached per Repo)."""
    cached = getattr(repo, "_attr_stores_cache", None)
    if cached is not None:
        return cached
    repo._attr_stores_cache = _instance_attr_stores(repo)
    return repo._attr_stores_cache


def _instance_attr_stores(repo):
    stores = {}
    dynamic = set()  # classes with setattr(self, <computed>, ...)
    for f in repo.all_functions():
        selfname = None
        if f.cls is not None and not f.is_static and f.params:
            selfname = f.params[0]
        # local variables bound to fresh instances of repository classes: out = K(...), out = self.zero() ...
        local_cls = {}
        for n in walk_local_stmt(f.node):
            if isinstance(n, ast.Assign) and len(n.targets) == 1 and isinstance(n.targets[0], ast.Name):
                v = n.value
                if isinstance(v, ast.Call):
                    fn = v.func
                    if isinstance(fn, ast.Name):
                        r = repo.resolve_name(f.module, fn.id)
                        if hasattr(r, "methods"):
                            local_cls[n.targets[0].id] = r
                    elif isinstance(fn, ast.Attribute) and isinstance(fn.value, ast.Name) and fn.value.id == selfname:
                        if fn.attr in ("zero", "copy", "__mul__", "__add__") and f.cls is not None:
                            local_cls[n.targets[0].id] = f.cls
                    elif isinstance(fn, ast.Attribute) and fn.attr == "__new__":
                        if f.cls is not None or True:
                            local_cls[n.targets[0].id] = "anycls"
        for n in walk_local_stmt(f.node):
            targets = []
            if isinstance(n, ast.Assign):
                targets = n.targets
            elif isinstance(n, (ast.AugAssign, ast.AnnAssign)):
                targets = [n.target]
            elif isinstance(n, (ast.With,)):
                targets = [i.optional_vars for i in n.items if i.optional_vars is not None]
            flat = []
            for t in targets:
                if isinstance(t, (ast.Tuple, ast.List)):
                    flat += t.elts
                else:
                    flat.append(t)
            for t in flat:
                if isinstance(t, ast.Attribute) and isinstance(t.value, ast.Name):
                    if t.value.id == selfname and f.cls is not None:
                        stores.setdefault(f.cls.name, set()).add(t.attr)
                    elif t.value.id in local_cls:
                        k = local_cls[t.value.id]
                        if k == "anycls":
                            stores.setdefault("*", set()).add(t.attr)
                        else:
                            stores.setdefault(k.name, set()).add(t.attr)
            if isinstance(n, ast.Call) and isinstance(n.func, ast.Name) and n.func.id == "setattr" and n.args:
                if isinstance(n.args[0], ast.Name) and n.args[0].id == selfname and f.cls is not None:
                    if len(n.args) > 1 and isinstance(n.args[1], ast.Constant):
                        stores.setdefault(f.cls.name, set()).add(n.args[1].value)
                    else:
                        dynamic.add(f.cls.name)
            # with contextlib.suppress(...): self.bokeh = ...  handled by Assign above
    return stores, dynamic


def attr_universe(repo, c, stores):
    names = set(OBJECT_ATTRS)
    for k in repo.mro(c):
        names |= set(k.methods) | set(k.setters) | set(k.class_attrs) | set(k.posthoc)
        names |= stores.get(k.name, set())
    names |= stores.get("*", set())
    return names


def instantiated_classes(repo):
    out = set()
    for m in repo.modules.values():
        for n in ast.walk(m.tree):
            if isinstance(n, ast.Call) and isinstance(n.func, (ast.Name, ast.Attribute)):
                try:
                    txt = ast.unparse(n.func)
                except Exception:
                    continue
                if txt.replace(".", "").replace("_", "").isalnum():
                    r = repo.resolve_name(m, txt)
                    if hasattr(r, "methods") and hasattr(r, "bases"):
                        out.add(r)
    return out


def composed_classes(repo, c, inst):
    """Every repository class that has c in its MRO; c itself only if it is instantiated somewhere or has no
    subclasses (mixins and abstract bases are checked in their compositions)."""
    subs = [k for k in repo.subclasses(c) if k is not c]
    if not subs or c in inst:
        subs.append(c)
    return subs


def unresolved_self_loads(repo, classes=None, methods=None):
    """Yield (func, ast.Attribute, [composed classes where it fails]) for `self.x` loads that do not resolve."""
    stores, dynamic = instance_attr_stores(repo)
    checked = 0
    out = []
    inst = instantiated_classes(repo)
    for cs in repo.classes.values():
        for c in cs:
            if classes is not None and c.name not in classes:
                continue
            comps = composed_classes(repo, c, inst)
            # a mixin with no composition is checked against itself only
            for f in list(c.methods.values()) + list(c.setters.values()):
                if methods is not None and f.name not in methods:
                    continue
                if f.is_static or not f.params:
                    continue
                selfname = f.params[0]
                if f.is_classmethod:
                    continue
                for n in walk_local_stmt(f.node):
                    if (
                        isinstance(n, ast.Attribute)
                        and isinstance(n.ctx, ast.Load)
                        and isinstance(n.value, ast.Name)
                        and n.value.id == selfname
                    ):
                        checked += 1
                        bad = []
                        for k in comps:
                            if any(x.name in dynamic for x in repo.mro(k)) and (n.attr[:1] == "i" and n.attr[1:].isdigit()):
                                continue
                            if any("__getattr__" in x.methods for x in repo.mro(k)):
                                continue
                            if n.attr not in attr_universe(repo, k, stores):
                                # hasattr(self, "x") guards make the load conditional and legal
                                bad.append(k.name)
                        if bad and not _hasattr_guarded(f, n.attr, selfname):
                            out.append((f, n, bad))
    return out, checked


def _hasattr_guarded(f, attr, selfname):
    for n in walk_local_stmt(f.node):
        if isinstance(n, ast.Call) and isinstance(n.func, ast.Name) and n.func.id in ("hasattr", "getattr") and len(n.args) >= 2:
            if isinstance(n.args[0], ast.Name) and n.args[0].id == selfname and isinstance(n.args[1], ast.Constant):
                if n.args[1].value == attr:
                    return True
    return False
