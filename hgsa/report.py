"""Findings, known-findings matching, evidence files and exit codes (DESIGN 2.7)."""

import json
import os
import re
import time

VERIF = os.path.dirname(os.path.dirname(os.path.abspath(__file__)))
KNOWN_FILE = os.path.join(VERIF, "KNOWN_FINDINGS.txt")
EVIDENCE_DIR = os.path.join(VERIF, "evidence")
VIOL_DIR = os.path.join(EVIDENCE_DIR, "violations")


class Finding:
    def __init__(self, prop, rule, construct, stmt, message, file=None, line=None, path=None):
        self.prop = prop
        self.rule = rule
        self.construct = construct  # "<relpath>::<Class.method>"
        self.stmt = stmt  # normalised statement / instance text (part of the key)
        self.message = message
        self.file = file or construct.split("::")[0]
        self.line = line
        self.path = path  # optional: entry point / offending exit for path rules

    @property
    def key(self):
        return (self.prop, self.rule, self.construct, self.stmt)

    def as_dict(self):
        d = {
            "property": self.prop,
            "rule": self.rule,
            "construct": self.construct,
            "stmt": self.stmt,
            "message": self.message,
            "location": f"{self.file}:{self.line}" if self.line else self.file,
        }
        if self.path:
            d["path"] = self.path
        return d

    def text(self):
        loc = f"{self.file}:{self.line}" if self.line else self.file
        s = f"{loc}: [{self.prop}/{self.rule}] {self.construct}: {self.message}  (stmt: {self.stmt})"
        if self.path:
            s += f"  path: {self.path}"
        return s


_KNOWN_RE = re.compile(
    r"^known:\s+property=(\S+)\s+rule=(\S+)\s+construct=(\S+)\s+stmt=(.*?)\s+::\s+(.*)$"
)


def load_known(path=KNOWN_FILE):
    known = {}
    fixed = []
    if not os.path.exists(path):
        return known, fixed
    with open(path, encoding="utf-8") as f:
        for raw in f:
            line = raw.rstrip("\n")
            if not line.strip() or line.lstrip().startswith("#"):
                continue
            if line.startswith("fixed:"):
                fixed.append(line)
                continue
            m = _KNOWN_RE.match(line)
            if m:
                prop, rule, construct, stmt, what = m.groups()
                known[(prop, rule, construct, stmt.strip())] = what
    return known, fixed


class RuleStats:
    """What one rule analysed: instances (obligations), how many discharged, samples."""

    def __init__(self, rule, description):
        self.rule = rule
        self.description = description
        self.obligations = 0
        self.discharged = 0
        self.samples = []
        self.floor = None
        self.extra = {}

    def ob(self, ok, sample=None):
        self.obligations += 1
        if ok:
            self.discharged += 1
        if sample is not None and len(self.samples) < 6:
            self.samples.append(sample)


class Report:
    def __init__(self, prop, tier):
        self.prop = prop
        self.tier = tier
        self.findings = []
        self.rules = {}
        self.assumptions = []
        self.not_decided = []
        self.t0 = time.time()
        self.extra = {}
        self.analysed_functions = set()

    def rule(self, rule, description, floor=None):
        if rule not in self.rules:
            self.rules[rule] = RuleStats(rule, description)
        if floor is not None:
            self.rules[rule].floor = floor
        return self.rules[rule]

    def add(self, finding):
        if finding.key not in {f.key for f in self.findings}:
            self.findings.append(finding)

    def finding(self, rule, func_or_construct, node, message, stmt=None, path=None):
        from .loader import norm

        if hasattr(func_or_construct, "construct"):
            construct = func_or_construct.construct
            file = func_or_construct.module.relpath
        else:
            construct = func_or_construct
            file = construct.split("::")[0]
        line = getattr(node, "lineno", None) if node is not None else None
        if stmt is None:
            stmt = norm(node) if node is not None else "-"
        if len(stmt) > 160:
            stmt = stmt[:157] + "..."
        from .loader import demangle

        self.add(Finding(self.prop, rule, construct, demangle(stmt), demangle(message), file=file, line=line, path=path))

    def borrow(self, repo, src_prop, mapping, keep=None):
        """Run another property's rule module and take over some of its rules under this property's own rule ids.

        mapping: {source rule id: (own rule id, description, floor)}.  The borrowed rule must be a necessary condition of
        this property as well (the description says why).  keep(finding) -> bool optionally restricts the findings.
        """
        import importlib

        cache = repo.__dict__.setdefault("_borrow_cache", {})
        key = (src_prop, self.tier)
        sub = cache.get(key)
        if sub is None:
            mod = importlib.import_module(f"hgsa.rules.{src_prop.lower()}")
            sub = Report(src_prop, self.tier)
            mod.run(repo, sub, self.tier)
            cache[key] = sub
        for src_rule, (own_rule, desc, floor) in mapping.items():
            st = sub.rules.get(src_rule)
            if st is None:
                from .loader import AnalysisError

                raise AnalysisError(f"borrowed rule {src_prop}/{src_rule} does not exist")
            r = self.rule(own_rule, f"{desc} [shared with {src_prop}/{src_rule}]", floor=floor)
            nf = 0
            for f in sub.findings:
                if f.rule == src_rule and (keep is None or keep(f)):
                    nf += 1
                    self.add(Finding(self.prop, own_rule, f.construct, f.stmt, f.message, file=f.file, line=f.line, path=f.path))
            r.obligations += st.obligations
            r.discharged += max(0, st.obligations - nf) if keep is not None else st.discharged
            for smp in st.samples[:3]:
                if len(r.samples) < 6:
                    r.samples.append(smp)
        self.analysed_functions |= sub.analysed_functions
        for d in getattr(sub, "deferred", []) or []:
            if not hasattr(self, "deferred"):
                self.deferred = []
            self.deferred.append(d)

    # ------------------------------------------------------------------ finishing
    def check_floors(self):
        from .loader import AnalysisError

        for r in self.rules.values():
            if r.floor is not None and r.obligations < r.floor:
                raise AnalysisError(
                    f"rule {r.rule} matched only {r.obligations} instances, below the hand-confirmed floor {r.floor} "
                    f"(a rule that matches nothing passes vacuously)"
                )

    def finish(self, seed=0, write=True):
        """Print report, write evidence, return exit code."""
        self.check_floors()
        known, fixed = load_known()
        new = []
        matched = []
        for f in self.findings:
            if f.key in known:
                matched.append((f, known[f.key]))
            else:
                new.append(f)
        if not new and getattr(self, "deferred", None):
            # a coverage hole of the analysis with no violation that explains it: the run decides nothing for that statement
            from .loader import AnalysisError

            raise AnalysisError(self.deferred[0])
        total_ob = sum(r.obligations for r in self.rules.values())
        total_dis = sum(r.discharged for r in self.rules.values())
        print(f"== {self.prop} ({self.tier}) : {len(self.rules)} rules, {total_ob} obligations, "
              f"{total_dis} discharged, {len(self.findings)} findings ({len(matched)} known)")
        for r in self.rules.values():
            fl = f" floor={r.floor}" if r.floor is not None else ""
            print(f"   rule {r.rule}: {r.discharged}/{r.obligations}{fl}  {r.description}")
        for f, what in matched:
            print(f"KNOWN-FINDING: property={f.prop} rule={f.rule} construct={f.construct} :: {what}")
        replay_paths = []
        if new and write:
            os.makedirs(VIOL_DIR, exist_ok=True)
        for k, f in enumerate(new):
            print("FINDING " + f.text())
            path = os.path.join(VIOL_DIR, f"{self.prop}-{k}.json")
            if write:
                d = f.as_dict()
                d["replay_cmd"] = f"/venv/bin/python /verif/check.py --replay {path}"
                with open(path, "w") as fh:
                    json.dump(d, fh, indent=1)
            replay_paths.append(path)
            print(f"VIOLATION property={self.prop} replay={path}")
        if write:
            self.write_evidence(seed, len(new), matched)
        return 1 if new else 0

    def write_evidence(self, seed, nviol, matched):
        os.makedirs(EVIDENCE_DIR, exist_ok=True)
        total_ob = sum(r.obligations for r in self.rules.values())
        total_dis = sum(r.discharged for r in self.rules.values())
        samples = []
        for r in self.rules.values():
            for s in r.samples[:3]:
                samples.append({"rule": r.rule, "case": s})
        rules = {
            r.rule: {
                "description": r.description,
                "obligations": r.obligations,
                "discharged": r.discharged,
                "floor": r.floor,
                **r.extra,
            }
            for r in self.rules.values()
        }
        nontrivial = sum(1 for r in self.rules.values() for _ in range(r.obligations))
        ev = {
            "property_id": self.prop,
            "tier": self.tier,
            "seed": int(seed),
            "level": "other",
            "coverage": {
                "explanation": self.extra.get("explanation", ""),
                "obligations": total_ob,
                "discharged": total_dis,
                "evaluations": max(total_ob, 1),
                "distinct_nontrivial": max(nontrivial, 2) if total_ob >= 2 else total_ob,
                "rule": "one obligation per (rule, class/method/field/region instance) found in /repo's current source; "
                        "all are distinct constructs; an obligation is discharged when the rule holds for it",
                "samples": samples or [{"note": "no instances"}],
                "exhaustive": True,
                "rules": rules,
                "functions_analysed": len(self.analysed_functions),
                "known_findings_matched": [f.as_dict() for f, _ in matched],
                "not_decided": self.not_decided,
                **{k: v for k, v in self.extra.items() if k != "explanation"},
            },
            "assumptions": self.assumptions,
            "wall_s": round(time.time() - self.t0, 3),
            "violations": nviol,
        }
        with open(os.path.join(EVIDENCE_DIR, f"{self.prop}.json"), "w") as fh:
            json.dump(ev, fh, indent=1, default=str)
