"""Per-class state model inferred from the source, checked against the hand-confirmed floor (DESIGN 2.1, App. E)."""

import ast

from .astutil import is_float_nan_call, walk_local_stmt
from .loader import AnalysisError, FuncInfo, primitives

# Hand-confirmed floor (DESIGN Appendix E).  Only a floor: a row that can no longer be derived is ANALYSIS-ERROR.
REFERENCE = {
    "Count": dict(acc=["entries"], nan=[], slots=[], template=None),
    "Sum": dict(acc=["entries", "sum"], nan=[], slots=[], template=None),
    "Average": dict(acc=["entries", "mean"], nan=["mean"], slots=[], template=None),
    "Deviate": dict(acc=["entries", "mean", "varianceTimesEntries"], nan=["mean", "varianceTimesEntries"], slots=[], template=None),
    "Minimize": dict(acc=["entries", "min"], nan=["min"], slots=[], template=None),
    "Maximize": dict(acc=["entries", "max"], nan=["max"], slots=[], template=None),
    "Bag": dict(acc=["entries", "values"], nan=[], slots=[], template=None),
    "Bin": dict(acc=["entries"], nan=[], slots=["underflow", "overflow", "nanflow", "values"], template=None),
    "SparselyBin": dict(acc=["entries"], nan=[], slots=["nanflow", "bins"], template="value"),
    "CentrallyBin": dict(acc=["entries"], nan=[], slots=["nanflow", "bins"], template="value"),
    "IrregularlyBin": dict(acc=["entries"], nan=[], slots=["nanflow", "bins"], template=None),
    "Stack": dict(acc=["entries"], nan=[], slots=["nanflow", "bins"], template=None),
    "Fraction": dict(acc=["entries"], nan=[], slots=["numerator", "denominator"], template=None),
    "Select": dict(acc=["entries"], nan=[], slots=["cut"], template=None),
    "Categorize": dict(acc=["entries"], nan=[], slots=["bins"], template="value"),
    "Label": dict(acc=["entries"], nan=[], slots=["pairs"], template=None),
    "UntypedLabel": dict(acc=["entries"], nan=[], slots=["pairs"], template=None),
    "Index": dict(acc=["entries"], nan=[], slots=["values"], template=None),
    "Branch": dict(acc=["entries"], nan=[], slots=["values"], template=None),
}

USERFCN_FIELDS = ("quantity", "transform")


class ClassModel:
    def __init__(self, cls):
        self.cls = cls
        self.name = cls.name
        self.init_fields = {}   # attr -> list of RHS exprs stored in __init__
        self.acc = []           # scalar accumulators (content), entries first
        self.nan_fields = []    # accumulators initialised to NaN
        self.slots = []         # child slots (storage attrs whose elements are filled)
        self.slot_kind = {}     # slot -> single | list | tuple | dict | pairs-list | pairs-tuple
        self.template = None    # template attr (copied, never filled)
        self.structural = []    # other stored fields derived from constructor parameters
        self.userfcn = None

    @property
    def content(self):
        return self.acc + self.slots

    def __repr__(self):
        return (f"<Model {self.name} acc={self.acc} nan={self.nan_fields} slots={self.slots} kinds={self.slot_kind} "
                f"template={self.template} structural={self.structural} fcn={self.userfcn}>")


def _self_stores(f):
    selfname = f.params[0]
    out = {}
    nodes = [n for n in walk_local_stmt(f.node) if isinstance(n, ast.Assign)]
    for n in sorted(nodes, key=lambda x: (x.lineno, x.col_offset)):
        for t in n.targets:
            if isinstance(t, ast.Attribute) and isinstance(t.value, ast.Name) and t.value.id == selfname:
                out.setdefault(t.attr, []).append(n.value)
    return out


def _kind_of(expr):
    """Container kind of an __init__ right-hand side."""
    if isinstance(expr, ast.Dict) or (isinstance(expr, ast.Call) and isinstance(expr.func, ast.Name) and expr.func.id == "dict"):
        return "dict"
    if isinstance(expr, ast.DictComp):
        return "dict"
    if isinstance(expr, (ast.List, ast.ListComp)):
        return "list"
    if isinstance(expr, ast.BinOp) and isinstance(expr.left, ast.List):
        return "list"
    if isinstance(expr, ast.Tuple):
        return "tuple"
    if isinstance(expr, ast.Call) and isinstance(expr.func, ast.Name) and expr.func.id in ("tuple", "list", "sorted"):
        return "tuple" if expr.func.id == "tuple" else "list"
    if isinstance(expr, ast.Constant) and expr.value is None:
        return "none"
    return None


def build_models(repo):
    from .rules.c16 import fill_receivers, storage_attrs

    prims, _ = primitives(repo)
    models = {}
    for c in prims:
        m = ClassModel(c)
        init = repo.own_method(c, "__init__")
        m.init_fields = _self_stores(init)
        fill = repo.own_method(c, "fill")
        slots = [k for k in fill_receivers(repo, c, fill) if not k.startswith("?")]
        # children listed by the class itself
        ch = repo.lookup(c, "children")
        listed = set()
        if isinstance(ch, FuncInfo):
            sn = ch.params[0]
            for n in walk_local_stmt(ch.node):
                if isinstance(n, ast.Attribute) and isinstance(n.value, ast.Name) and n.value.id == sn:
                    listed |= storage_attrs(repo, c, n.attr)
        # template: listed by children (or stored from a Container-valued parameter) but never filled
        ref = REFERENCE.get(c.name)
        order = list(m.init_fields)
        m.template_filled = False
        if ref and ref["template"] and ref["template"] in slots:
            # the confirmed template has become a receiver of fill: that is the R6.4 violation itself, not a vanished anchor
            slots = [s for s in slots if s != ref["template"]]
            m.template_filled = True
        m.slots = [s for s in order if s in slots] + [s for s in slots if s not in order]
        for a in order:
            if a in m.slots or a in USERFCN_FIELDS:
                continue
            rhs = m.init_fields[a]
            if all((isinstance(e, ast.Constant) and isinstance(e.value, (int, float)) and not isinstance(e.value, bool))
                   or is_float_nan_call(e) for e in rhs) or (a == "values" and c.name == "Bag"):
                m.acc.append(a)
                if any(is_float_nan_call(e) for e in rhs):
                    m.nan_fields.append(a)
            elif (a in listed and a not in slots) or (m.template_filled and ref and a == ref["template"]):
                m.template = a
            else:
                m.structural.append(a)
        # a template may also be stored but not listed by children (CentrallyBin.value)
        if m.template is None and ref and ref["template"] and ref["template"] in m.structural:
            init_params = init.params
            if ref["template"] in init_params:
                m.template = ref["template"]
                m.structural.remove(ref["template"])
        for u in USERFCN_FIELDS:
            if u in m.init_fields:
                m.userfcn = u
        for s in m.slots:
            kinds = {_kind_of(e) for e in m.init_fields.get(s, [])} - {None, "none"}
            if not kinds:
                # stored by reference from a parameter: the collections (tuple from *values, dict from **pairs)
                a = init.node.args
                if a.vararg and any(isinstance(e, ast.Name) and e.id == a.vararg.arg for e in m.init_fields.get(s, [])):
                    kinds = {"tuple"}
                elif a.kwarg and any(isinstance(e, ast.Name) and e.id == a.kwarg.arg for e in m.init_fields.get(s, [])):
                    kinds = {"dict"}
                else:
                    kinds = {"single"}
            m.slot_kind[s] = sorted(kinds)[0] if len(kinds) == 1 else "/".join(sorted(kinds))
        if "entries" in m.acc:
            m.acc.remove("entries")
            m.acc.insert(0, "entries")
        # floor check
        if ref is None:
            raise AnalysisError(f"no reference row for primitive {c.name}")
        for a in ref["acc"]:
            if a not in m.acc:
                raise AnalysisError(f"{c.name}: accumulator `{a}` of the confirmed model can no longer be derived from __init__")
        for a in ref["nan"]:
            if a not in m.nan_fields:
                raise AnalysisError(f"{c.name}: NaN-initialised field `{a}` of the confirmed model can no longer be derived")
        for s in ref["slots"]:
            if s not in m.slots:
                raise AnalysisError(f"{c.name}: child slot `{s}` of the confirmed model is no longer filled by fill()")
        if ref["template"] and m.template != ref["template"]:
            raise AnalysisError(f"{c.name}: template `{ref['template']}` of the confirmed model can no longer be derived")
        models[c.name] = m
    return models
