"""Routing tables of fill / _numpy per region of the datum, computed by the abstract interpreter (DESIGN 2.4).

For every container class a configuration gives the symbolic order line (its critical points), the abstract node
(children as named slots) and the oracle: the routing the property statement / class docstrings specify.
"""

import ast

from .interp import (NAN, UNK, Arr, Child, DictSlot, Key, Machine, Num, Obj, Opaque, OrderLine, Param, Pos, Scaled, Unsup, W,
                     _Raise, _Return, explore)
from .loader import AnalysisError, FuncInfo

PARTITION = ("Bin", "SparselyBin", "CentrallyBin", "IrregularlyBin", "Categorize")
CONTAINERS = ("Bin", "SparselyBin", "CentrallyBin", "IrregularlyBin", "Stack", "Fraction", "Select", "Categorize",
              "Label", "UntypedLabel", "Index", "Branch")


class Config:
    def __init__(self, cls, line, fields, regions, expected, knobs=None, desc=""):
        self.cls = cls
        self.line = line
        self.fields = fields        # callable -> fresh dict of fields for a new abstract node
        self.regions = regions      # list of (label, q abstract value)
        self.expected = expected    # callable (label, q) -> set of (slot, weightkind) | "raise"
        self.knobs = knobs or {}
        self.desc = desc


def _common(fields):
    fields.setdefault("entries", Opaque("entries"))
    fields.setdefault("quantity", ("quantity", "quantity"))
    fields.setdefault("_checkedForCrossReferences", True)
    return fields


def numeric_regions(line):
    regs = [("NaN", NAN)]
    for p in line.regions():
        regs.append((repr(p), p))
    return regs


def configs(repo, cname, size):
    """Configurations of class cname with `size` thresholds / centres / children (where applicable)."""
    c = repo.cls(cname)
    if cname == "Bin":
        line = OrderLine(["low", "high"])
        n = max(2, size)

        def fields():
            return _common({"low": line.pos_of("low"), "high": line.pos_of("high"),
                            "values": [Child(f"values[{i}]") for i in range(n)],
                            "underflow": Child("underflow"), "overflow": Child("overflow"), "nanflow": Child("nanflow")})

        def expected(label, q):
            if q is NAN:
                return {("nanflow", "weight")}
            if q.k < line.pos_of("low").k:
                return {("underflow", "weight")}
            if q.k >= line.pos_of("high").k:
                return {("overflow", "weight")}
            return {("values[*]", "weight")}

        return [Config(c, line, fields, numeric_regions(line), expected,
                       {"range_lo": "low", "range_hi": "high", "nbuckets": n}, f"Bin with {n} bins")]
    if cname == "SparselyBin":
        line = OrderLine([])

        def fields():
            return _common({"binWidth": Param("binWidth", +1), "origin": Param("origin"), "bins": DictSlot("bins"),
                            "value": Child("value", kind="template"), "nanflow": Child("nanflow"), "contentType": "Count"})

        def expected(label, q):
            return {("nanflow", "weight")} if q is NAN else {("bins[*]", "weight")}

        out = []
        for nd in (1, 2):
            def f2(nd=nd):
                d = fields()
                d["n_dim"] = Num(nd)
                return d
            out.append(Config(c, line, f2, numeric_regions(line), expected, {}, f"SparselyBin (n_dim={nd})"))
        return out
    if cname == "CentrallyBin":
        n = max(2, size)
        pts, mids = [], {}
        for i in range(n):
            pts.append(f"c{i}")
            if i < n - 1:
                pts.append(f"m{i}")
                mids[(f"c{i}", f"c{i + 1}")] = f"m{i}"
        line = OrderLine(pts, mids=mids)

        def fields():
            return _common({"bins": [(line.pos_of(f"c{i}"), Child(f"bins[{i}]")) for i in range(n)],
                            "value": Child("value", kind="template"), "nanflow": Child("nanflow")})

        def expected(label, q):
            if q is NAN:
                return {("nanflow", "weight")}
            i = sum(1 for j in range(n - 1) if q.k >= line.pos_of(f"m{j}").k)   # ties go to the upper bin
            return {(f"bins[{i}]", "weight")}

        return [Config(c, line, fields, numeric_regions(line), expected, {}, f"CentrallyBin with {n} centres")]
    if cname in ("IrregularlyBin", "Stack"):
        n = max(0, size)
        pts = [f"t{i + 1}" for i in range(n)]
        line = OrderLine(pts)

        def fields():
            bins = tuple([(line.pos_of("-inf"), Child("bins[0]"))] + [(line.pos_of(p), Child(f"bins[{i + 1}]")) for i, p in enumerate(pts)])
            return _common({"bins": bins, "nanflow": Child("nanflow")})

        def expected(label, q):
            if q is NAN:
                return {("nanflow", "weight")}
            reached = [0] + [i + 1 for i, p in enumerate(pts) if q.k >= line.pos_of(p).k]
            if cname == "Stack":
                return {(f"bins[{i}]", "weight") for i in reached}
            return {(f"bins[{max(reached)}]", "weight")}

        out = [Config(c, line, fields, numeric_regions(line), expected, {}, f"{cname} with {n} thresholds")]
        if cname == "Stack" and n >= 2:
            # Stack neither sorts nor validates its thresholds: each level tests its own threshold independently
            rpts = list(reversed(pts))

            def fields_desc():
                bins = tuple([(line.pos_of("-inf"), Child("bins[0]"))] + [(line.pos_of(p), Child(f"bins[{i + 1}]")) for i, p in enumerate(rpts)])
                return _common({"bins": bins, "nanflow": Child("nanflow")})

            def expected_desc(label, q):
                if q is NAN:
                    return {("nanflow", "weight")}
                reached = [0] + [i + 1 for i, p in enumerate(rpts) if q.k >= line.pos_of(p).k]
                return {(f"bins[{i}]", "weight") for i in reached}

            out.append(Config(c, line, fields_desc, numeric_regions(line), expected_desc, {"unordered": True}, f"Stack with {n} thresholds (descending)"))
        return out
    if cname in ("Fraction", "Select"):
        line = OrderLine(["zero"], consts={0: "zero", 0.0: "zero"})

        def fields():
            if cname == "Fraction":
                return _common({"numerator": Child("numerator"), "denominator": Child("denominator")})
            return _common({"cut": Child("cut")})

        def expected(label, q):
            out = set()
            if cname == "Fraction":
                out.add(("denominator", "weight"))
            passes = q is not NAN and q.k > line.pos_of("zero").k
            if passes:
                out.add(("numerator" if cname == "Fraction" else "cut", "q*weight"))
            return out

        return [Config(c, line, fields, numeric_regions(line), expected, {}, cname)]
    if cname == "Categorize":
        line = OrderLine([])

        def fields():
            return _common({"bins": DictSlot("bins"), "value": Child("value", kind="template"), "contentType": "Count"})

        regions = [("str", "some-category"), ("bool", True), ("None", None), ("NaN", NAN), ("number", Pos(1, line, datum=True))]

        def expected(label, q):
            if label == "number":
                return "raise"
            return {("bins[*]", "weight")}

        out = []
        for nd in (1, 2):
            def f2(nd=nd):
                d = fields()
                d["n_dim"] = Num(nd)
                return d
            out.append(Config(c, line, f2, regions, expected, {}, f"Categorize (n_dim={nd})"))
        return out
    if cname in ("Label", "UntypedLabel", "Index", "Branch"):
        n = max(1, size)
        line = OrderLine([])

        def fields():
            if cname in ("Label", "UntypedLabel"):
                return _common({"pairs": {f"k{i}": Child(f"pairs[{i}]") for i in range(n)}})
            d = _common({"values": tuple(Child(f"values[{i}]") for i in range(n))})
            return d

        slot = "pairs" if cname in ("Label", "UntypedLabel") else "values"

        def expected(label, q):
            return {(f"{slot}[{i}]", "weight") for i in range(n)}

        return [Config(c, line, fields, [("any", Opaque("datum"))], expected, {}, f"{cname} with {n} children")]
    if cname in LEAVES:
        line = OrderLine([])

        def fields():
            d = _common({})
            if cname == "Count":
                d["transform"] = ("quantity", "transform")
            for a in {"Sum": ["sum"], "Average": ["mean"], "Deviate": ["mean", "varianceTimesEntries"], "Minimize": ["min"],
                      "Maximize": ["max"]}.get(cname, []):
                d[a] = Opaque(f"self.{a}")
            if cname == "Bag":
                d["values"] = DictSlot("values", scalar=True)
                d["range"] = "N"
                d["dimension"] = Num(0)
            return d

        regions = numeric_regions(line)
        if cname == "Count":
            regions = [("any", Opaque("datum"))]

            def fields_id():
                d = fields()
                d["transform"] = ("global", "identity")
                return d
            return [Config(c, line, fields, regions, lambda label, q: set(), {}, "Count (other transform)"),
                    Config(c, line, fields_id, regions, lambda label, q: set(), {}, "Count (identity transform)")]
        return [Config(c, line, fields, regions, lambda label, q: set(), {}, cname)]
    raise AnalysisError(f"no routing configuration for {cname}")


LEAVES = ("Count", "Sum", "Average", "Deviate", "Minimize", "Maximize", "Bag")
WEIGHT_CLASSES_FILL = ("nan", "neg", "zero", "pos")
WEIGHT_CLASSES_NUMPY = ("zero", "one", "pos")


def norm_slot(slot, collective):
    """values[3] -> values[*] for slots addressed through opaque index arithmetic / data-dependent keys."""
    s = slot[4:].split("#")[0] if slot.startswith("new:") else slot
    if "[" in s:
        base = s.split("[")[0]
        if base in collective:
            if s.endswith("[key:other]"):
                return f"{base}[another row's key]"
            return f"{base}[*]"
    return s


def weight_kind(w):
    """Classify the weight a child receives: 'weight' (the caller's), 'q*weight', 'zero', or a description."""
    if isinstance(w, W):
        if w.cls == "zero":
            return "zero"
        if w.tag == "weight":
            return "weight"
        if w.tag == "count":
            return "count"     # the row is counted once: equals the caller's weight only if that weight is 1
        return w.tag
    if isinstance(w, Scaled):
        if w.w.cls == "zero":
            return "zero"
        if isinstance(w.q, Pos) and 0 in w.q.line.consts and w.q.k == w.q.line.pos_of(w.q.line.consts[0]).k:
            return "zero"   # 0 * weight
        return "q*weight"
    if isinstance(w, Num):
        return "zero" if w.v == 0 else f"const {w.v}"
    if isinstance(w, Opaque) and "zero" in repr(w):
        return "zero"
    return repr(w)


def collective_slots(cfg):
    if cfg.cls.name == "Bin":
        return {"values"}
    if cfg.cls.name in ("SparselyBin", "Categorize"):
        return {"bins"}
    return set()


class PathResult:
    def __init__(self, effects, choices, outcome, machine, cfg, wcls=None):
        self.effects = effects
        self.outcome = outcome
        self.machine = machine
        col = collective_slots(cfg)
        self.fills = set()
        self.all_fill_slots = set()
        self.entries = []
        self.raises = [e[1] for e in effects if e[0] == "raise"]
        self.inserts = [e for e in effects if e[0] == "insert"]
        self.accs = [e for e in effects if e[0] in ("acc+", "acc=")]
        self.order = []
        fresh_home = {}
        for e in effects:
            if e[0] == "insert" and isinstance(e[3], Child) and e[3].slot.startswith("new:"):
                fresh_home[e[3].slot] = f"{e[1]}[{e[2]}]"
        for e in effects:
            if e[0] == "fill":
                _, slot, w, meth, sel = e
                slot = fresh_home.get(slot, slot)
                wk = weight_kind(w)
                if wk == "count":
                    wk = "weight" if wcls == "one" else "1 (a count) instead of the weight"
                ns = norm_slot(slot, col)
                self.all_fill_slots.add(ns)
                if sel is False:
                    wk = "zero"
                self.order.append(("fill", ns, wk))
                if wk != "zero":
                    self.fills.add((ns, wk))
            elif e[0] == "acc+" and e[1] == "entries":
                self.entries.append(e[2])
                self.order.append(("entries", e[2]))
            elif e[0] in ("acc+", "acc=", "insert"):
                self.order.append((e[0], e[1]))


def run_fill(repo, cfg, label, q, wcls):
    f = repo.own_method(cfg.cls, "fill")

    def make():
        obj = Obj(cfg.cls, cfg.fields())
        m = Machine(repo, cfg.cls, cfg.line, obj, cfg.knobs)
        m.q_value = q
        return m

    def entry(m):
        m.call_function(f, [Opaque("datum"), W(wcls, tag="weight")], selfval=m.selfobj)

    return [PathResult(e, c, o, m, cfg, wcls) for (e, c, o, m) in explore(make, entry)]


def run_numpy(repo, cfg, label, q, wcls, wform, children_count, shape_known=False, single_row=False):
    f = repo.own_method(cfg.cls, "_numpy")

    def make():
        obj = Obj(cfg.cls, cfg.fields())
        knobs = dict(cfg.knobs)
        knobs["children_count"] = children_count
        knobs["identity_transform"] = True
        if single_row:
            knobs["single_row"] = True
        m = Machine(repo, cfg.cls, cfg.line, obj, knobs)
        m.q_value = Arr(q, "input", "q") if not isinstance(q, Opaque) else Opaque("column")
        return m

    def entry(m):
        if wform == "array":
            weights = Arr(W(wcls, tag="weight"), "input", "weights")
        else:
            weights = W(wcls, tag="weight")
        m.call_function(f, [Opaque("data"), weights, [Opaque("n") if shape_known else None]], selfval=m.selfobj)

    return [PathResult(e, c, o, m, cfg, wcls) for (e, c, o, m) in explore(make, entry)]
