"""N16  forwarding of raw-document temporaries.

    entries = json["entries"]                         if json["entries"] in (...) or isinstance(json["entries"], Real):
    if not (entries in (...) or isinstance(entries,   ->     ...
            numbers.Real)): raise ...                 entries = float(json["entries"])
    entries = float(entries)

A local that is bound to a pure read of a parameter -- ``p[const]``, ``p.get(const)``, ``p.get(const, const)`` -- where the
parameter is neither rebound nor mutated anywhere in the function, stands for that read: the reads are substituted and the
binding is dropped when nothing else needs it.  The readers of the repository (fromJsonFragment) are written with the reads
in place; the document rules (C04/R4.x, C15/R15.x) work on that form.

``p.get(k)`` is normalised to ``p.get(k, None)`` for such parameters.
"""
import ast
import copy

_COMPOUND = (ast.If, ast.For, ast.While, ast.With, ast.Try)
_READ_METHODS = {"get", "keys", "items", "values", "__contains__", "__getitem__"}


def _params(fn):
    a = fn.args
    return {x.arg for x in a.posonlyargs + a.args + a.kwonlyargs}


def _stable_params(fn):
    ps = _params(fn)
    bad = set()
    for n in ast.walk(fn):
        if isinstance(n, ast.Name) and n.id in ps and isinstance(n.ctx, (ast.Store, ast.Del)):
            bad.add(n.id)
        elif isinstance(n, (ast.Subscript, ast.Attribute)) and isinstance(n.ctx, (ast.Store, ast.Del)) and \
                isinstance(n.value, ast.Name) and n.value.id in ps:
            bad.add(n.value.id)
        elif isinstance(n, ast.Call) and isinstance(n.func, ast.Attribute) and isinstance(n.func.value, ast.Name) and \
                n.func.value.id in ps and n.func.attr not in _READ_METHODS:
            bad.add(n.func.value.id)
        elif isinstance(n, (ast.Global, ast.Nonlocal)):
            bad |= set(n.names)
    return ps - bad


def _stable_loop_vars(fn):
    """names bound exactly once, as (part of) the target of a `for` statement, and never mutated: inside that loop's body such a
    name stands for one element, just like a parameter stands for one argument"""
    counts = {}
    loop_bound = set()
    for n in ast.walk(fn):
        if isinstance(n, ast.Name) and isinstance(n.ctx, (ast.Store, ast.Del)):
            counts[n.id] = counts.get(n.id, 0) + 1
        if isinstance(n, ast.For):
            for x in ast.walk(n.target):
                if isinstance(x, ast.Name):
                    loop_bound.add(x.id)
    cand = {v for v in loop_bound if counts.get(v) == 1}
    bad = set()
    for n in ast.walk(fn):
        if isinstance(n, (ast.Subscript, ast.Attribute)) and isinstance(n.ctx, (ast.Store, ast.Del)) and isinstance(n.value, ast.Name) and n.value.id in cand:
            bad.add(n.value.id)
        elif isinstance(n, ast.Call) and isinstance(n.func, ast.Attribute) and isinstance(n.func.value, ast.Name) and \
                n.func.value.id in cand and n.func.attr not in _READ_METHODS:
            bad.add(n.func.value.id)
        elif isinstance(n, (ast.Global, ast.Nonlocal)):
            bad |= set(n.names)
    return cand - bad - _params(fn)


def _const(x):
    return isinstance(x, ast.Constant) and isinstance(x.value, (str, int, type(None), bool))


def pure_read(e, stable):
    """p[const] / p.get(const[, const]) for a stable parameter p"""
    if isinstance(e, ast.Subscript) and isinstance(e.value, ast.Name) and e.value.id in stable and _const(e.slice):
        return True
    if isinstance(e, ast.Call) and isinstance(e.func, ast.Attribute) and e.func.attr == "get" and isinstance(e.func.value, ast.Name) and \
            e.func.value.id in stable and not e.keywords and 1 <= len(e.args) <= 2 and all(_const(a) for a in e.args):
        return True
    return False


def _stored(st):
    out = set()
    for n in ast.walk(st):
        if isinstance(n, ast.Name) and isinstance(n.ctx, (ast.Store, ast.Del)):
            out.add(n.id)
        elif isinstance(n, (ast.FunctionDef, ast.ClassDef, ast.AsyncFunctionDef)) and n is not st:
            out.add(n.name)
        elif isinstance(n, ast.ExceptHandler) and n.name:
            out.add(n.name)
        elif isinstance(n, (ast.Import, ast.ImportFrom)):
            for a in n.names:
                out.add((a.asname or a.name).split(".")[0])
    return out


class _Subst(ast.NodeTransformer):
    def __init__(self, env):
        self.env = env
        self.blocked = set()       # variables read where no substitution is made (nested scopes)
        self.count = 0

    def visit_Name(self, n):
        if isinstance(n.ctx, ast.Load) and n.id in self.env:
            self.count += 1
            new = copy.deepcopy(self.env[n.id]["expr"])
            return ast.copy_location(new, n)
        return n

    def _scope(self, n):
        for x in ast.walk(n):
            if isinstance(x, ast.Name) and x.id in self.env:
                self.blocked.add(x.id)
        return n

    visit_FunctionDef = visit_AsyncFunctionDef = visit_Lambda = visit_ClassDef = _scope

    def _comp(self, n):
        bound = {x.id for g in n.generators for x in ast.walk(g.target) if isinstance(x, ast.Name)}
        if bound & set(self.env):
            return self._scope(n)
        return self.generic_visit(n)

    visit_ListComp = visit_SetComp = visit_DictComp = visit_GeneratorExp = _comp


def _headers(st):
    if isinstance(st, (ast.If, ast.While)):
        return ["test"]
    if isinstance(st, ast.For):
        return ["iter"]
    return []


def _blocks(st):
    out = []
    for fld in ("body", "orelse", "finalbody"):
        b = getattr(st, fld, None)
        if isinstance(b, list) and b and isinstance(b[0], ast.stmt):
            out.append(b)
    for h in getattr(st, "handlers", []) or []:
        out.append(h.body)
    return out


def forward_param_reads(tree):
    for fn in ast.walk(tree):
        if not isinstance(fn, (ast.FunctionDef, ast.AsyncFunctionDef)):
            continue
        stable = _stable_params(fn) | _stable_loop_vars(fn)
        if not stable:
            continue
        # normalise p.get(k) -> p.get(k, None)
        has = False
        for n in ast.walk(fn):
            if pure_read(n, stable):
                if isinstance(n, ast.Call) and len(n.args) == 1:
                    n.args.append(ast.Constant(value=None))
            if isinstance(n, ast.Assign) and len(n.targets) == 1 and isinstance(n.targets[0], ast.Name) and pure_read(n.value, stable):
                has = True
        if not has:
            continue
        _forward_function(fn, stable)
    ast.fix_missing_locations(tree)


def _forward_function(fn, stable):
    """Forward only the candidates for which every read in the function is reached by exactly that one binding, decided
    conservatively: the variable's bindings are all top-level statements of one block B, a binding candidate's reads lie in B
    (at any depth) between it and the next binding, and nothing outside B reads the variable."""
    # collect per-variable store sites
    stores = {}
    for n in ast.walk(fn):
        if isinstance(n, ast.Name) and isinstance(n.ctx, (ast.Store, ast.Del)):
            stores.setdefault(n.id, []).append(n)
    parent_block = {}

    def index(block):
        for st in block:
            parent_block[id(st)] = block
            for b in _blocks(st) if isinstance(st, _COMPOUND) else []:
                index(b)
    index(fn.body)

    def walk_block(block):
        i = 0
        while i < len(block):
            st = block[i]
            i += 1
            if isinstance(st, _COMPOUND):
                for b in _blocks(st):
                    walk_block(b)
                continue
            if not (isinstance(st, ast.Assign) and len(st.targets) == 1 and isinstance(st.targets[0], ast.Name) and pure_read(st.value, stable)):
                continue
            v = st.targets[0].id
            if v in _params(fn):
                continue
            # every store of v is a top-level simple statement of this block
            ok = True
            tops = []
            for s in stores.get(v, []):
                owner = None
                for k, cand in enumerate(block):
                    if any(x is s for x in ast.walk(cand)):
                        owner = (k, cand)
                        break
                if owner is None or isinstance(owner[1], _COMPOUND) or isinstance(owner[1], (ast.FunctionDef, ast.ClassDef)):
                    ok = False
                    break
                tops.append(owner[0])
            if not ok:
                continue
            # nothing outside this block mentions v
            inside = {id(x) for cand in block for x in ast.walk(cand)}
            if any(isinstance(x, ast.Name) and x.id == v and id(x) not in inside for x in ast.walk(fn)):
                continue
            if any(isinstance(x, ast.Name) and x.id == v and isinstance(x.ctx, ast.Load) for cand in block[:min(tops)] for x in ast.walk(cand)):
                continue                      # a loop body reading the previous iteration's binding
            here = i - 1
            nxt = min([k for k in tops if k > here], default=len(block))
            env = {v: {"expr": st.value}}
            blocked = False
            region = block[here + 1:nxt + (1 if nxt < len(block) else 0)]
            # first pass: can every read in the region be substituted?
            for k, cand in enumerate(region):
                last = (here + 1 + k == nxt)
                probe = copy.deepcopy(cand)
                sub = _Subst(env)
                if last and isinstance(probe, ast.Assign):
                    sub.visit(probe.value)
                elif last and isinstance(probe, ast.AugAssign):
                    blocked = True
                else:
                    sub.visit(probe)
                if sub.blocked:
                    blocked = True
            if blocked:
                continue
            for k, cand in enumerate(region):
                last = (here + 1 + k == nxt)
                sub = _Subst(env)
                if last and isinstance(cand, ast.Assign):
                    cand.value = sub.visit(cand.value)
                else:
                    new = sub.visit(cand)
                    assert new is cand
            del block[here]
            stores[v] = [s for s in stores[v] if s is not st.targets[0]]
            i = here
    walk_block(fn.body)
