"""Rational-function normal forms over field symbols (DESIGN 2.5).

A polynomial is {monomial: Fraction} with monomial = tuple of sorted (symbol, exponent); a value is num/den.
Equality by cross-multiplication.  No CAS, no solver.  `formula()` turns an AST expression into a value given an
environment; `straightline()` executes assignments of one selected branch (value numbering along that branch; the
branch is chosen by evaluating the tests against a stated scenario such as "finite datum, non-empty node").
"""

import ast
from fractions import Fraction

from .loader import AnalysisError


class Unsupported(AnalysisError):
    pass


def _mono_mul(a, b):
    d = dict(a)
    for s, e in b:
        d[s] = d.get(s, 0) + e
    return tuple(sorted((s, e) for s, e in d.items() if e != 0))


class Poly:
    __slots__ = ("t",)

    def __init__(self, terms=None):
        self.t = {m: c for m, c in (terms or {}).items() if c != 0}

    @staticmethod
    def const(c):
        return Poly({(): Fraction(c)})

    @staticmethod
    def sym(name):
        return Poly({((name, 1),): Fraction(1)})

    def __add__(self, o):
        d = dict(self.t)
        for m, c in o.t.items():
            d[m] = d.get(m, 0) + c
        return Poly(d)

    def __neg__(self):
        return Poly({m: -c for m, c in self.t.items()})

    def __sub__(self, o):
        return self + (-o)

    def __mul__(self, o):
        d = {}
        for m1, c1 in self.t.items():
            for m2, c2 in o.t.items():
                m = _mono_mul(m1, m2)
                d[m] = d.get(m, 0) + c1 * c2
        return Poly(d)

    def __eq__(self, o):
        return self.t == o.t

    def __hash__(self):
        return hash(tuple(sorted(self.t.items())))

    def is_zero(self):
        return not self.t

    def symbols(self):
        return {s for m in self.t for s, _ in m}

    def subst(self, mapping):
        """Substitute symbols by Rat values; returns Rat."""
        out = Rat(Poly.const(0))
        for m, c in self.t.items():
            term = Rat(Poly.const(c))
            for s, e in m:
                v = mapping.get(s, Rat(Poly.sym(s)))
                for _ in range(e):
                    term = term * v
            out = out + term
        return out

    def __repr__(self):
        if not self.t:
            return "0"
        parts = []
        for m, c in sorted(self.t.items()):
            ms = "*".join(s if e == 1 else f"{s}^{e}" for s, e in m)
            parts.append(f"{c}" + (f"*{ms}" if ms else ""))
        return " + ".join(parts)


class Rat:
    __slots__ = ("n", "d")

    def __init__(self, n, d=None):
        self.n = n
        self.d = d if d is not None else Poly.const(1)

    @staticmethod
    def const(c):
        return Rat(Poly.const(c))

    @staticmethod
    def sym(s):
        return Rat(Poly.sym(s))

    def __add__(self, o):
        if self.d == o.d:
            return Rat(self.n + o.n, self.d)
        return Rat(self.n * o.d + o.n * self.d, self.d * o.d)

    def __sub__(self, o):
        return self + Rat(-o.n, o.d)

    def __mul__(self, o):
        return Rat(self.n * o.n, self.d * o.d)

    def __truediv__(self, o):
        if o.n.is_zero():
            raise Unsupported("division by the zero polynomial")
        return Rat(self.n * o.d, self.d * o.n)

    def __neg__(self):
        return Rat(-self.n, self.d)

    def equals(self, o):
        return (self.n * o.d - o.n * self.d).is_zero()

    def is_zero(self):
        return self.n.is_zero()

    def symbols(self):
        return self.n.symbols() | self.d.symbols()

    def subst(self, mapping):
        return self.n.subst(mapping) / self.d.subst(mapping)

    def rename(self, ren):
        return self.subst({a: Rat.sym(b) for a, b in ren.items()})

    def __repr__(self):
        if self.d == Poly.const(1):
            return f"({self.n})"
        return f"({self.n}) / ({self.d})"


def formula(e, env, opaque=None):
    """AST expression -> Rat. env: text of Name/Attribute -> Rat.  Unknown names become symbols named by their text."""
    if isinstance(e, ast.Constant) and isinstance(e.value, (int, float)) and not isinstance(e.value, bool):
        return Rat.const(Fraction(str(e.value)))
    if isinstance(e, (ast.Name, ast.Attribute)):
        k = ast.unparse(e)
        if k in env:
            return env[k]
        return Rat.sym(k)
    if isinstance(e, ast.BinOp):
        l, r = formula(e.left, env, opaque), formula(e.right, env, opaque)
        if isinstance(e.op, ast.Add):
            return l + r
        if isinstance(e.op, ast.Sub):
            return l - r
        if isinstance(e.op, ast.Mult):
            return l * r
        if isinstance(e.op, ast.Div):
            return l / r
        if isinstance(e.op, ast.Pow) and isinstance(e.right, ast.Constant) and isinstance(e.right.value, int) and e.right.value >= 0:
            out = Rat.const(1)
            for _ in range(e.right.value):
                out = out * l
            return out
        raise Unsupported(f"operator {type(e.op).__name__} in formula `{ast.unparse(e)}`")
    if isinstance(e, ast.UnaryOp) and isinstance(e.op, ast.USub):
        return -formula(e.operand, env, opaque)
    if isinstance(e, ast.UnaryOp) and isinstance(e.op, ast.UAdd):
        return formula(e.operand, env, opaque)
    if isinstance(e, ast.Call):
        fn = ast.unparse(e.func)
        if fn == "float" and len(e.args) == 1 and not e.keywords:
            if isinstance(e.args[0], ast.Constant) and isinstance(e.args[0].value, str):
                raise Unsupported(f"non-finite constant {ast.unparse(e)} in a formula")
            return formula(e.args[0], env, opaque)
        if opaque is not None:
            return opaque(e, env)
        raise Unsupported(f"call `{ast.unparse(e)}` in a formula")
    if isinstance(e, ast.Subscript):
        k = ast.unparse(e)
        if k in env:
            return env[k]
        return Rat.sym(k)
    raise Unsupported(f"expression `{ast.unparse(e)}` in a formula")


class Scenario:
    """Truth of the tests that select a branch (e.g. finite datum, non-empty node)."""

    def __init__(self, truths=None, default_nonfinite=False):
        self.truths = dict(truths or {})
        self.default_nonfinite = default_nonfinite

    def eval(self, test, env):
        if isinstance(test, ast.UnaryOp) and isinstance(test.op, ast.Not):
            v = self.eval(test.operand, env)
            return None if v is None else (not v)
        if isinstance(test, ast.BoolOp):
            vals = [self.eval(v, env) for v in test.values]
            if isinstance(test.op, ast.And):
                if any(v is False for v in vals):
                    return False
                return True if all(v is True for v in vals) else None
            if any(v is True for v in vals):
                return True
            return False if all(v is False for v in vals) else None
        txt = ast.unparse(test).replace(" ", "")
        if txt in self.truths:
            return self.truths[txt]
        if isinstance(test, ast.Call):
            fn = ast.unparse(test.func)
            if fn in ("math.isnan", "math.isinf", "numpy.isnan", "np.isnan", "numpy.isinf", "np.isinf"):
                return self.default_nonfinite
        return None


def resolve_conditionals(e, env, scenario):
    """`A if T else B` inside an expression: the branch the scenario selects (T decided like an `if` statement)"""
    import copy

    class R(ast.NodeTransformer):
        def visit_IfExp(self, n):
            v = scenario.eval(n.test, env)
            if v is None:
                raise Unsupported(f"test `{ast.unparse(n.test)}` is not decided by the scenario")
            return self.visit(n.body if v else n.orelse)
    if not any(isinstance(x, ast.IfExp) for x in ast.walk(e)):
        return e
    return R().visit(copy.deepcopy(e))


def straightline(stmts, env, scenario, opaque=None, returns=None):
    """Execute assignments along the branch selected by `scenario`. env maps texts (e.g. 'self.mean', 'delta') to Rat.

    Supports Assign/AugAssign to Names and `X.attr` targets, If (selected by the scenario), Pass, Expr, Return
    (the returned expression is appended to `returns`), import.  Anything else: Unsupported.
    """
    for st in stmts:
        if isinstance(st, ast.Assign):
            if isinstance(st.value, ast.Tuple) and len(st.targets) == 1 and isinstance(st.targets[0], ast.Tuple):
                vals = [formula(resolve_conditionals(v, env, scenario), env, opaque) for v in st.value.elts]
                for t, v in zip(st.targets[0].elts, vals):
                    env[ast.unparse(t)] = v
                continue
            try:
                v = formula(resolve_conditionals(st.value, env, scenario), env, opaque)
            except Unsupported:
                if all(isinstance(t, (ast.Name, ast.Attribute)) for t in st.targets) and _is_nonnumeric(st.value):
                    for t in st.targets:
                        env[ast.unparse(t)] = Rat.sym("<" + ast.unparse(st.value) + ">")
                    continue
                raise
            for t in st.targets:
                if isinstance(t, (ast.Name, ast.Attribute, ast.Subscript)):
                    env[ast.unparse(t)] = v
                else:
                    raise Unsupported(f"assignment target `{ast.unparse(t)}`")
        elif isinstance(st, ast.AugAssign):
            k = ast.unparse(st.target)
            cur = env.get(k, Rat.sym(k))
            v = formula(resolve_conditionals(st.value, env, scenario), env, opaque)
            if isinstance(st.op, ast.Add):
                env[k] = cur + v
            elif isinstance(st.op, ast.Sub):
                env[k] = cur - v
            elif isinstance(st.op, ast.Mult):
                env[k] = cur * v
            elif isinstance(st.op, ast.Div):
                env[k] = cur / v
            else:
                raise Unsupported(f"augmented operator in `{ast.unparse(st)}`")
        elif isinstance(st, ast.If):
            v = scenario.eval(st.test, env)
            if v is None:
                raise Unsupported(f"test `{ast.unparse(st.test)}` is not decided by the scenario")
            r = straightline(st.body if v else st.orelse, env, scenario, opaque, returns)
            if r == "returned":
                return r
        elif isinstance(st, (ast.Pass, ast.Import, ast.ImportFrom)):
            continue
        elif isinstance(st, ast.Expr):
            continue
        elif isinstance(st, ast.Return):
            if returns is not None:
                returns.append(st.value)
            return "returned"
        elif isinstance(st, ast.Raise):
            raise Unsupported("the selected branch raises")
        else:
            raise Unsupported(f"statement `{type(st).__name__}` at line {st.lineno}")
    return None


def _is_nonnumeric(e):
    return isinstance(e, ast.Call) or isinstance(e, (ast.Dict, ast.List, ast.ListComp, ast.DictComp, ast.Compare, ast.BoolOp))
