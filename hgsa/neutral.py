#!/venv/bin/python
"""Robustness of the checkers against behaviour-preserving edits (run by the thorough tier and by tools/neutral_fuzz.py).

Applies one class of semantics-preserving source transformation at every applicable site of the package (in memory, by
splicing source text so that comments survive), then runs every property's rules on the variant.  Any finding that is not
on the unchanged tree, and any ANALYSIS-ERROR, is a false alarm of the checker and must be fixed in the checker.

  neutral_fuzz.py [T1 T2 ...] [--props C01,C02] [--files substring]
"""
import ast
import importlib
import os
import sys
from concurrent.futures import ProcessPoolExecutor

HERE = os.path.dirname(os.path.dirname(os.path.abspath(__file__)))
if HERE not in sys.path:
    sys.path.insert(0, HERE)
from hgsa.loader import AnalysisError, Repo  # noqa: E402
from hgsa.report import Report  # noqa: E402

PROPS = [f"C{i:02d}" for i in range(1, 18)]


def simple(e):
    if isinstance(e, (ast.Name, ast.Constant)):
        return True
    if isinstance(e, ast.Attribute):
        return simple(e.value)
    if isinstance(e, ast.UnaryOp) and isinstance(e.op, ast.USub):
        return simple(e.operand)
    return False


def seg(src_lines, n):
    """source text of node n (single- or multi-line)"""
    if n.lineno == n.end_lineno:
        return src_lines[n.lineno - 1][n.col_offset:n.end_col_offset]
    parts = [src_lines[n.lineno - 1][n.col_offset:]]
    for i in range(n.lineno, n.end_lineno - 1):
        parts.append(src_lines[i])
    parts.append(src_lines[n.end_lineno - 1][:n.end_col_offset])
    return "\n".join(parts)


class Edit:
    def __init__(self, node, text):
        self.node = node
        self.text = text


def apply_edits(src, edits):
    """non-overlapping edits, applied from the end"""
    lines = src.split("\n")
    offs = [0]
    for ln in lines:
        offs.append(offs[-1] + len(ln.encode("utf-8")) + 1)
    b = src.encode("utf-8")

    def pos(line, col):
        return offs[line - 1] + col

    spans = []
    for e in edits:
        n = e.node
        spans.append((pos(n.lineno, n.col_offset), pos(n.end_lineno, n.end_col_offset), e.text))
    spans.sort()
    out = []
    last_end = None
    kept = []
    for s, t, txt in spans:
        if last_end is not None and s < last_end:
            continue   # nested/overlapping: keep the outer (first) one
        kept.append((s, t, txt))
        last_end = t
    for s, t, txt in reversed(kept):
        b = b[:s] + txt.encode("utf-8") + b[t:]
    return b.decode("utf-8"), len(kept)


def bsegment(src, n):
    lines = src.split("\n")
    b_lines = [ln.encode("utf-8") for ln in lines]
    if n.lineno == n.end_lineno:
        return b_lines[n.lineno - 1][n.col_offset:n.end_col_offset].decode("utf-8")
    parts = [b_lines[n.lineno - 1][n.col_offset:].decode("utf-8")]
    for i in range(n.lineno, n.end_lineno - 1):
        parts.append(lines[i])
    parts.append(b_lines[n.end_lineno - 1][:n.end_col_offset].decode("utf-8"))
    return "\n".join(parts)


MIRROR = {ast.Lt: ">", ast.Gt: "<", ast.LtE: ">=", ast.GtE: "<="}


def transform(kind, src):
    tree = ast.parse(src)
    edits = []
    for n in ast.walk(tree):
        if kind == "T1" and isinstance(n, ast.Compare) and len(n.ops) == 1 and isinstance(n.ops[0], (ast.Eq, ast.NotEq)):
            a, b = n.left, n.comparators[0]
            if simple(a) and simple(b) and not (isinstance(a, ast.Constant) and isinstance(b, ast.Constant)):
                op = "==" if isinstance(n.ops[0], ast.Eq) else "!="
                edits.append(Edit(n, f"{bsegment(src, b)} {op} {bsegment(src, a)}"))
        elif kind == "T2" and isinstance(n, ast.Compare) and len(n.ops) == 1 and type(n.ops[0]) in MIRROR:
            a, b = n.left, n.comparators[0]
            if simple(a) and simple(b):
                edits.append(Edit(n, f"{bsegment(src, b)} {MIRROR[type(n.ops[0])]} {bsegment(src, a)}"))
        elif kind == "T3" and isinstance(n, ast.AugAssign) and isinstance(n.op, ast.Add) and isinstance(n.target, ast.Attribute) \
                and n.target.attr == "entries" and isinstance(n.target.value, ast.Name):
            t = bsegment(src, n.target)
            edits.append(Edit(n, f"{t} = {t} + ({bsegment(src, n.value)})"))
        elif kind == "T4" and isinstance(n, ast.If) and n.orelse and not (len(n.orelse) == 1 and isinstance(n.orelse[0], ast.If)):
            # swap branches under a negated test; only single-line simple bodies to keep the splice trivial
            if n.body[0].col_offset == n.orelse[0].col_offset and n.lineno == n.test.end_lineno:
                ind = " " * n.col_offset
                ind2 = " " * n.body[0].col_offset
                lines = src.split("\n")
                body = "\n".join(lines[n.body[0].lineno - 1:n.body[-1].end_lineno])
                orelse = "\n".join(lines[n.orelse[0].lineno - 1:n.orelse[-1].end_lineno])
                # keep only when the statement texts start at line starts (no trailing comments issues)
                if lines[n.body[0].lineno - 1].startswith(ind2) and lines[n.orelse[0].lineno - 1].startswith(ind2):
                    # comments between branches stay with the branch text
                    is_elif = lines[n.lineno - 1][n.col_offset:].startswith("elif")
                    kw = "elif" if is_elif else "if"
                    edits.append(Edit(n, f"{kw} not ({bsegment(src, n.test)}):\n{orelse}\n{ind}else:\n{body}"))
        elif kind == "T5" and isinstance(n, ast.Return) and n.value is not None and not isinstance(n.value, (ast.Name, ast.Constant)):
            par_ok = True
            ind = " " * n.col_offset
            lines = src.split("\n")
            if lines[n.lineno - 1][:n.col_offset].strip() == "":
                edits.append(Edit(n, f"_hgsa_r = {bsegment(src, n.value)}\n{ind}return _hgsa_r"))
        elif kind == "T6" and isinstance(n, ast.BinOp) and isinstance(n.op, (ast.Add, ast.Mult)):
            a, b = n.left, n.right
            if isinstance(a, ast.Attribute) and isinstance(b, ast.Attribute) and a.attr == b.attr and simple(a) and simple(b) \
                    and a.attr in ("entries", "sum", "mean", "min", "max", "varianceTimesEntries"):
                op = "+" if isinstance(n.op, ast.Add) else "*"
                edits.append(Edit(n, f"{bsegment(src, b)} {op} {bsegment(src, a)}"))
        elif kind == "T7" and isinstance(n, ast.BoolOp) and len(n.values) == 2:
            def pure(e):
                if isinstance(e, ast.Call) and ast.unparse(e.func) in ("math.isnan", "math.isinf", "np.isnan", "numpy.isnan") and all(simple(x) for x in e.args):
                    return True
                if isinstance(e, ast.Compare) and len(e.ops) == 1 and simple(e.left) and simple(e.comparators[0]) and not isinstance(
                        e.ops[0], (ast.In, ast.NotIn)):
                    return True
                return False
            if all(pure(v) for v in n.values):
                op = "and" if isinstance(n.op, ast.And) else "or"
                edits.append(Edit(n, f"{bsegment(src, n.values[1])} {op} {bsegment(src, n.values[0])}"))
    if kind == "T11":
        # `return A and B and C` in __eq__  ->  `if not (A): return False` ... `return C`
        lines = src.split("\n")
        for fn in ast.walk(tree):
            if isinstance(fn, ast.FunctionDef) and fn.name == "__eq__":
                for n in ast.walk(fn):
                    if isinstance(n, ast.Return) and isinstance(n.value, ast.BoolOp) and isinstance(n.value.op, ast.And) and len(n.value.values) >= 2 \
                            and lines[n.lineno - 1][:n.col_offset].strip() == "":
                        ind = " " * n.col_offset
                        parts = [bsegment(src, v) for v in n.value.values]
                        out = []
                        for pt in parts[:-1]:
                            out.append(f"if not ({pt}):\n{ind}    return False")
                        out.append(f"return bool({parts[-1]})")
                        edits.append(Edit(n, ("\n" + ind).join(out)))
    if kind == "T13":
        # guard inversion:  if C: <body ending in return>  ; raise X      ->      if not (C): raise X ; <body>
        lines = src.split("\n")
        for fn in ast.walk(tree):
            if not isinstance(fn, ast.FunctionDef):
                continue
            body = [b for b in fn.body if not (isinstance(b, ast.Expr) and isinstance(b.value, ast.Constant))]
            if len(body) == 2 and isinstance(body[0], ast.If) and not body[0].orelse and isinstance(body[1], ast.Raise) \
                    and isinstance(body[0].body[-1], ast.Return) and body[0].lineno == body[0].test.end_lineno:
                iff, rs = body
                seg = lines[iff.body[0].lineno - 1:iff.body[-1].end_lineno]
                if any('"""' in ln or "'''" in ln for ln in seg):
                    continue
                ind = " " * iff.col_offset
                if not all(ln.startswith(ind + "    ") or ln.strip() == "" for ln in seg):
                    continue
                ded = [ln[4:] if ln.strip() else ln for ln in seg]
                raise_txt = "\n".join(lines[rs.lineno - 1:rs.end_lineno])
                raise_ind = "\n".join(("    " + ln) if ln.strip() else ln for ln in raise_txt.split("\n"))
                new_txt = f"if not ({bsegment(src, iff.test)}):\n{raise_ind}\n" + "\n".join(ded)

                class Span:
                    pass
                sp = Span()
                sp.lineno, sp.col_offset = iff.lineno, iff.col_offset
                sp.end_lineno, sp.end_col_offset = rs.end_lineno, rs.end_col_offset
                edits.append(Edit(sp, new_txt))
    if kind == "T15":
        # a `pass` statement in front of the first real statement of every function
        lines = src.split("\n")
        for fn in ast.walk(tree):
            if isinstance(fn, (ast.FunctionDef, ast.AsyncFunctionDef)):
                body = [b for b in fn.body if not (isinstance(b, ast.Expr) and isinstance(b.value, ast.Constant))]
                if body and lines[body[0].lineno - 1][:body[0].col_offset].strip() == "" and not isinstance(body[0], (ast.FunctionDef, ast.ClassDef)) \
                        and not getattr(body[0], "decorator_list", None):
                    first = body[0]

                    class Pt:
                        pass
                    pt = Pt()
                    pt.lineno = pt.end_lineno = first.lineno
                    pt.col_offset = pt.end_col_offset = first.col_offset
                    edits.append(Edit(pt, "pass\n" + " " * first.col_offset))
    if kind == "T20":
        # key order of dict literals and order of keyword arguments reversed (no positional change)
        for n in ast.walk(tree):
            if isinstance(n, ast.Dict) and len(n.keys) >= 2 and all(k is not None for k in n.keys) and all(
                    isinstance(k, ast.Constant) for k in n.keys):
                items = [f"{bsegment(src, k)}: {bsegment(src, v)}" for k, v in zip(n.keys, n.values)]
                edits.append(Edit(n, "{" + ", ".join(reversed(items)) + "}"))
    if kind == "T21":
        # for i, x in enumerate(S)  ->  for i in range(len(S)): x = S[i]
        lines = src.split("\n")
        for n in ast.walk(tree):
            if isinstance(n, ast.For) and isinstance(n.iter, ast.Call) and isinstance(n.iter.func, ast.Name) and n.iter.func.id == "enumerate" \
                    and len(n.iter.args) == 1 and not n.iter.keywords and isinstance(n.target, ast.Tuple) and len(n.target.elts) == 2 \
                    and isinstance(n.target.elts[0], ast.Name) and simple(n.iter.args[0]) and n.body and n.lineno == n.iter.end_lineno \
                    and lines[n.body[0].lineno - 1][:n.body[0].col_offset].strip() == "":
                seq = bsegment(src, n.iter.args[0])
                i = n.target.elts[0].id
                x = bsegment(src, n.target.elts[1])
                ind2 = " " * n.body[0].col_offset

                class Hdr:
                    pass
                h = Hdr()
                h.lineno, h.col_offset = n.lineno, n.col_offset
                h.end_lineno, h.end_col_offset = n.body[0].lineno, n.body[0].col_offset
                edits.append(Edit(h, f"for {i} in range(len({seq})):\n{ind2}{x} = {seq}[{i}]\n{ind2}"))
    if kind == "T22":
        # for k, v in D.items()  ->  for k in D: v = D[k]
        lines = src.split("\n")
        for n in ast.walk(tree):
            if isinstance(n, ast.For) and isinstance(n.iter, ast.Call) and isinstance(n.iter.func, ast.Attribute) and n.iter.func.attr == "items" \
                    and not n.iter.args and isinstance(n.target, ast.Tuple) and len(n.target.elts) == 2 and isinstance(n.target.elts[0], ast.Name) \
                    and simple(n.iter.func.value) and n.body and n.lineno == n.iter.end_lineno \
                    and lines[n.body[0].lineno - 1][:n.body[0].col_offset].strip() == "":
                d = bsegment(src, n.iter.func.value)
                k = n.target.elts[0].id
                v = bsegment(src, n.target.elts[1])
                ind2 = " " * n.body[0].col_offset

                class Hdr:
                    pass
                h = Hdr()
                h.lineno, h.col_offset = n.lineno, n.col_offset
                h.end_lineno, h.end_col_offset = n.body[0].lineno, n.body[0].col_offset
                edits.append(Edit(h, f"for {k} in {d}:\n{ind2}{v} = {d}[{k}]\n{ind2}"))
    if kind == "T23":
        # raw-document temporaries in the JSON readers: `_raw_k = json["k"]` once behind the key gate, then `_raw_k` for every read
        lines = src.split("\n")
        for fn in ast.walk(tree):
            if not (isinstance(fn, ast.FunctionDef) and fn.name == "fromJsonFragment" and fn.args.args):
                continue
            jp = fn.args.args[0].arg
            gates = [b for b in fn.body if isinstance(b, ast.If)]
            if not gates:
                continue
            gate = gates[0]
            req = None
            for c in ast.walk(gate.test):
                if isinstance(c, ast.Call) and isinstance(c.func, ast.Name) and c.func.id == "hasKeys" and len(c.args) >= 2 and \
                        isinstance(c.args[1], (ast.List, ast.Tuple)) and ast.unparse(c.args[0]) == f"{jp}.keys()":
                    req = [e.value for e in c.args[1].elts if isinstance(e, ast.Constant) and isinstance(e.value, str)]
            if not req or not gate.body or lines[gate.body[0].lineno - 1][:gate.body[0].col_offset].strip() != "":
                continue
            first = gate.body[0]
            decl = []
            for k in req:
                nm = "_raw_" + "".join(ch if ch.isalnum() else "_" for ch in k)
                uses = [x for st in gate.body for x in ast.walk(st) if isinstance(x, ast.Subscript) and isinstance(x.ctx, ast.Load)
                        and isinstance(x.value, ast.Name) and x.value.id == jp and isinstance(x.slice, ast.Constant) and x.slice.value == k]
                if not uses:
                    continue
                decl.append(f"{nm} = {jp}[{k!r}]")
                for u in uses:
                    edits.append(Edit(u, nm))
            if decl:
                class Pt:
                    pass
                pt = Pt()
                pt.lineno = pt.end_lineno = first.lineno
                pt.col_offset = pt.end_col_offset = first.col_offset
                ind = " " * first.col_offset
                edits.append(Edit(pt, ("\n" + ind).join(decl) + "\n" + ind))
    if kind == "T24":
        # De Morgan: `if A and B: X else: Y`  ->  `if not (A) or not (B): Y else: X`
        lines = src.split("\n")
        for n in ast.walk(tree):
            if isinstance(n, ast.If) and n.orelse and isinstance(n.test, ast.BoolOp) and not (len(n.orelse) == 1 and isinstance(n.orelse[0], ast.If)):
                if n.body[0].col_offset == n.orelse[0].col_offset and n.lineno == n.test.end_lineno:
                    ind = " " * n.col_offset
                    ind2 = " " * n.body[0].col_offset
                    body = "\n".join(lines[n.body[0].lineno - 1:n.body[-1].end_lineno])
                    orelse = "\n".join(lines[n.orelse[0].lineno - 1:n.orelse[-1].end_lineno])
                    if lines[n.body[0].lineno - 1].startswith(ind2) and lines[n.orelse[0].lineno - 1].startswith(ind2):
                        is_elif = lines[n.lineno - 1][n.col_offset:].startswith("elif")
                        kw = "elif" if is_elif else "if"
                        dual = " or " if isinstance(n.test.op, ast.And) else " and "
                        test = dual.join(f"not ({bsegment(src, v)})" for v in n.test.values)
                        edits.append(Edit(n, f"{kw} {test}:\n{orelse}\n{ind}else:\n{body}"))
    if kind == "T25":
        # two consecutive independent assignments written as one parallel assignment:  a = x ; b = y  ->  a, b = x, y
        lines = src.split("\n")

        def plain_value(e):
            return all(isinstance(x, (ast.Name, ast.Attribute, ast.Constant, ast.BinOp, ast.UnaryOp, ast.operator, ast.unaryop, ast.expr_context))
                       for x in ast.walk(e))

        for node in ast.walk(tree):
            for fld in ("body", "orelse"):
                b = getattr(node, fld, None)
                if not (isinstance(b, list) and b and isinstance(b[0], ast.stmt)):
                    continue
                i = 0
                while i + 1 < len(b):
                    s1, s2 = b[i], b[i + 1]
                    ok = all(isinstance(x, ast.Assign) and len(x.targets) == 1 and isinstance(x.targets[0], (ast.Name, ast.Attribute)) and simple(x.targets[0])
                             and x.lineno == x.end_lineno for x in (s1, s2))
                    if ok and s2.lineno == s1.lineno + 1 and s1.col_offset == s2.col_offset and plain_value(s2.value) and plain_value(s1.value) \
                            and lines[s1.lineno - 1][:s1.col_offset].strip() == "" and "#" not in lines[s1.lineno - 1] and "#" not in lines[s2.lineno - 1]:
                        t1, t2 = bsegment(src, s1.targets[0]), bsegment(src, s2.targets[0])
                        root1 = t1.split(".")[0]
                        names2 = {x.id for x in ast.walk(s2.value) if isinstance(x, ast.Name)}
                        if root1 not in names2 and t1 != t2 and not isinstance(s1.value, ast.Tuple) and not isinstance(s2.value, ast.Tuple):
                            class Sp:
                                pass
                            sp = Sp()
                            sp.lineno, sp.col_offset = s1.lineno, s1.col_offset
                            sp.end_lineno, sp.end_col_offset = s2.end_lineno, s2.end_col_offset
                            edits.append(Edit(sp, f"{t1}, {t2} = {bsegment(src, s1.value)}, {bsegment(src, s2.value)}"))
                            i += 2
                            continue
                    i += 1
    if kind in ("T26", "T27"):
        lines = src.split("\n")
        for fn in ast.walk(tree):
            if not isinstance(fn, (ast.FunctionDef, ast.AsyncFunctionDef)):
                continue
            if any(isinstance(x, (ast.FunctionDef, ast.AsyncFunctionDef, ast.Lambda, ast.ClassDef)) and x is not fn for x in ast.walk(fn)):
                continue
            all_names = [x for x in ast.walk(fn) if isinstance(x, ast.Name)]
            for node in ast.walk(fn):
                for fld in ("body", "orelse"):
                    b = getattr(node, fld, None)
                    if not (isinstance(b, list) and b and isinstance(b[0], ast.stmt)):
                        continue
                    for i, st in enumerate(b):
                        if kind == "T26":
                            # v = [E for T in IT if C]   ->   v = [] ; for T in IT: if C: v.append(E)
                            if not (isinstance(st, ast.Assign) and len(st.targets) == 1 and isinstance(st.targets[0], ast.Name) and isinstance(st.value, ast.ListComp)
                                    and len(st.value.generators) == 1 and not st.value.generators[0].is_async):
                                continue
                            comp, gen = st.value, st.value.generators[0]
                            v = st.targets[0].id
                            inside = {id(x) for x in ast.walk(comp)}
                            tnames = {x.id for x in ast.walk(gen.target) if isinstance(x, ast.Name)}
                            if any(x.id == v for x in ast.walk(comp) if isinstance(x, ast.Name)):
                                continue
                            if any(x.id in tnames and id(x) not in inside for x in all_names):
                                continue        # the loop variable would leak into another use of the same name
                            if lines[st.lineno - 1][:st.col_offset].strip() != "" or "#" in "".join(lines[st.lineno - 1:st.end_lineno]):
                                continue
                            ind = " " * st.col_offset
                            txt = f"{v} = []\n{ind}for {bsegment(src, gen.target)} in {bsegment(src, gen.iter)}:\n"
                            inner = ind + "    "
                            for c in gen.ifs:
                                txt += f"{inner}if {bsegment(src, c)}:\n"
                                inner += "    "
                            txt += f"{inner}{v}.append({bsegment(src, comp.elt)})"
                            edits.append(Edit(st, txt))
                        else:
                            # v = [] ; for T in IT: [if C:] v.append(E)   ->   v = [E for T in IT if C]
                            if i + 1 >= len(b):
                                continue
                            nx = b[i + 1]
                            if not (isinstance(st, ast.Assign) and len(st.targets) == 1 and isinstance(st.targets[0], ast.Name) and isinstance(st.value, ast.List)
                                    and not st.value.elts and isinstance(nx, ast.For) and not nx.orelse and len(nx.body) == 1):
                                continue
                            v = st.targets[0].id
                            inner = nx.body[0]
                            cond = None
                            if isinstance(inner, ast.If) and not inner.orelse and len(inner.body) == 1:
                                cond, inner = inner.test, inner.body[0]
                            if not (isinstance(inner, ast.Expr) and isinstance(inner.value, ast.Call) and isinstance(inner.value.func, ast.Attribute)
                                    and inner.value.func.attr == "append" and isinstance(inner.value.func.value, ast.Name) and inner.value.func.value.id == v
                                    and len(inner.value.args) == 1 and not inner.value.keywords):
                                continue
                            elt = inner.value.args[0]
                            reads_v = [x for part in (elt, nx.iter, cond) if part is not None for x in ast.walk(part) if isinstance(x, ast.Name) and x.id == v]
                            if reads_v:
                                continue
                            tnames = {x.id for x in ast.walk(nx.target) if isinstance(x, ast.Name)}
                            inside = {id(x) for x in ast.walk(nx)}
                            if any(x.id in tnames and id(x) not in inside for x in all_names):
                                continue        # the loop variable is used after the loop
                            seg_lines = lines[st.lineno - 1:nx.end_lineno]
                            if any("#" in ln for ln in seg_lines) or lines[st.lineno - 1][:st.col_offset].strip() != "":
                                continue
                            txt = f"{v} = [{bsegment(src, elt)} for {bsegment(src, nx.target)} in {bsegment(src, nx.iter)}"
                            if cond is not None:
                                txt += f" if {bsegment(src, cond)}"
                            txt += "]"

                            class Sp:
                                pass
                            sp = Sp()
                            sp.lineno, sp.col_offset = st.lineno, st.col_offset
                            sp.end_lineno, sp.end_col_offset = nx.end_lineno, nx.end_col_offset
                            edits.append(Edit(sp, txt))
    if kind == "T8":
        # rename every function-local variable (not a parameter) in functions without nested scopes that could capture it
        for fn in ast.walk(tree):
            if not isinstance(fn, (ast.FunctionDef, ast.AsyncFunctionDef)):
                continue
            inner = [x for x in ast.walk(fn) if x is not fn and isinstance(x, (ast.FunctionDef, ast.AsyncFunctionDef, ast.Lambda, ast.ClassDef))]
            if inner:
                continue
            if any(isinstance(x, (ast.Global, ast.Nonlocal)) for x in ast.walk(fn)):
                continue
            a = fn.args
            params = {x.arg for x in a.posonlyargs + a.args + a.kwonlyargs} | ({a.vararg.arg} if a.vararg else set()) | ({a.kwarg.arg} if a.kwarg else set())
            bound_other = set()
            for x in ast.walk(fn):
                if isinstance(x, (ast.Import, ast.ImportFrom)):
                    for al in x.names:
                        bound_other.add((al.asname or al.name).split(".")[0])
                if isinstance(x, ast.ExceptHandler) and x.name:
                    bound_other.add(x.name)
            assigned = {x.id for x in ast.walk(fn) if isinstance(x, ast.Name) and isinstance(x.ctx, (ast.Store, ast.Del))} - params - bound_other
            assigned = {v for v in assigned if not v.startswith("_hgsa")}
            for x in ast.walk(fn):
                if isinstance(x, ast.Name) and x.id in assigned:
                    edits.append(Edit(x, x.id + "_r"))
    if not edits:
        return src, 0
    out, k = apply_edits(src, edits)
    try:
        compile(out, "<variant>", "exec")
    except SyntaxError:
        # fall back: apply edits one by one, skipping those that break the syntax
        out = src
        k = 0
        for e in sorted(edits, key=lambda e: (-e.node.lineno, -e.node.col_offset)):
            cand, kk = apply_edits(out, [e])
            try:
                compile(cand, "<variant>", "exec")
            except SyntaxError:
                continue
            out = cand
            k += kk
    return out, k


def build_overrides(kind, only=None):
    base = Repo()
    ov = {}
    total = 0
    for m in base.modules.values():
        rel = m.relpath
        if only and only not in rel:
            continue
        src = open(os.path.join(base.root, rel)).read()
        try:
            out, k = transform(kind, src)
        except Exception as e:   # a transformation bug is not the checker's problem
            print(f"   (transform {kind} failed on {rel}: {e})")
            continue
        if k:
            ov[rel] = out
            total += k
    return ov, total


def run_one(args):
    kind, prop, only = args
    ov, total = build_overrides(kind, only)
    mod = importlib.import_module(f"hgsa.rules.{prop.lower()}")
    try:
        from hgsa.selfval import base_keys
        from hgsa.loader import REPO_ROOT
        basekeys = base_keys(prop, REPO_ROOT)
    except AnalysisError as e:
        return kind, prop, total, "BASE-ERROR", [str(e)]
    rep = Report(prop, "quick")
    try:
        mod.run(Repo(overrides=ov), rep, "quick")
        try:
            rep.check_floors()
        except AnalysisError as e:
            return kind, prop, total, "ANALYSIS-ERROR", [str(e)[:400]]
        if getattr(rep, "deferred", None) and not [f for f in rep.findings if f.key not in basekeys]:
            return kind, prop, total, "ANALYSIS-ERROR", [rep.deferred[0][:400]]
    except AnalysisError as e:
        return kind, prop, total, "ANALYSIS-ERROR", [str(e)[:400]]
    except Exception as e:
        import traceback
        return kind, prop, total, "CRASH", [traceback.format_exc()[-600:]]
    new = [f.text()[:400] for f in rep.findings if f.key not in basekeys]
    return kind, prop, total, ("FALSE-ALARM" if new else "silent"), new


KINDS = ["T1", "T2", "T3", "T4", "T5", "T6", "T7", "T8", "T11", "T13", "T15", "T20", "T21", "T22", "T23", "T24", "T25", "T26"]   # T27 (append loop -> comprehension) has no site on the current tree; available by name
KIND_DESC = {"T1": "operands of ==/!= swapped", "T2": "ordering comparisons mirrored", "T3": "`entries += e` written as `entries = entries + e`",
             "T4": "negated test with swapped branches", "T5": "return through a temporary", "T6": "float sums/products of the same field commuted",
             "T7": "pure operands of and/or swapped", "T8": "function-local variables renamed",
             "T11": "`return A and B` of __eq__ unfolded into guard statements", "T13": "type guard inverted: `if not isinstance: raise` first",
             "T15": "`pass` inserted at the top of every function", "T20": "key order of dict literals reversed",
             "T21": "enumerate loops rewritten with range(len(...)) and an index", "T22": "`.items()` loops rewritten as key loops with a lookup",
             "T23": "JSON readers read every required key once into a temporary behind the key gate",
             "T24": "De Morgan: `if A and B: X else: Y` written as `if not A or not B: Y else: X`",
             "T25": "two consecutive independent assignments written as one parallel assignment",
             "T26": "list comprehensions bound to a local written as append loops",
             "T27": "append loops written as list comprehensions"}


def run_property(prop, jobs=8):
    """All transformations for one property -> summary dict for the evidence file."""
    with ProcessPoolExecutor(max_workers=jobs) as ex:
        res = list(ex.map(run_one, [(k, prop, None) for k in KINDS]))
    return {
        "transformations": len(res),
        "silent": sum(1 for r in res if r[3] == "silent"),
        "details": [f"{r[0]} ({KIND_DESC[r[0]]}): {r[2]} sites -> {r[3]}" for r in res],
        "problems": [f"{r[0]}: {r[3]}: {(r[4] or [''])[0][:300]}" for r in res if r[3] != "silent"],
    }


def main(argv):
    kinds = [a for a in argv if a.startswith("T")] or list(KINDS)
    props = PROPS
    only = None
    for i, a in enumerate(argv):
        if a == "--props":
            props = argv[i + 1].split(",")
        if a == "--files":
            only = argv[i + 1]
    jobs = [(k, p, only) for k in kinds for p in props]
    bad = 0
    with ProcessPoolExecutor(max_workers=16) as ex:
        for kind, prop, total, status, msgs in ex.map(run_one, jobs):
            print(f"{kind} {prop}: {total} sites transformed -> {status}")
            for m in msgs[:6]:
                print("      " + m)
            bad += status != "silent"
    print(f"{bad} problems")
    return 1 if bad else 0


if __name__ == "__main__":
    sys.exit(main(sys.argv[1:]))
