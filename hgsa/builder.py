"""Result-builder analysis: which fields of self/other flow into each field of the object a method returns.

Used by C01 (merge completeness), C04 (mode preservation, reader flows), C08.
"""

import ast

from .astutil import walk_local_stmt
from .loader import AnalysisError, ClassInfo, FuncInfo
from .taint import EMPTY, FieldTaint, relabel


def bind_call_args(init, call, L):
    """param name -> labels of the argument expression bound to it (L: expr -> labels)."""
    a = init.node.args
    pos = [p.arg for p in a.posonlyargs + a.args]
    if not init.is_static:
        pos = pos[1:]
    env = {}
    exprs = {}
    i = 0
    star = EMPTY
    for arg in call.args:
        if isinstance(arg, ast.Starred):
            star |= L(arg.value)
        elif i < len(pos):
            env[pos[i]] = L(arg)
            exprs[pos[i]] = arg
            i += 1
        else:
            star |= L(arg)
    kws = EMPTY
    for kw in call.keywords:
        if kw.arg is None:
            kws |= L(kw.value)
        elif kw.arg in pos or kw.arg in [p.arg for p in a.kwonlyargs]:
            env[kw.arg] = L(kw.value)
            exprs[kw.arg] = kw.value
        else:
            kws |= L(kw.value)
    if a.vararg:
        env[a.vararg.arg] = star
    if a.kwarg:
        env[a.kwarg.arg] = kws
    return env, exprs


def bind_call_exprs(init, call):
    """param name -> argument expression (positional and keyword arguments only; splats are ignored)."""
    _, exprs = bind_call_args(init, call, lambda x: EMPTY)
    return exprs


def ctor_field_labels(repo, k, call, L, dict_fields=()):
    """field -> labels, for the object built by `K(args)` (through K.__init__'s body)."""
    init = repo.method(k, "__init__", required=False)
    if init is None:
        return {}, {}
    env, exprs = bind_call_args(init, call, L)
    ft = FieldTaint(repo, k, init, [], dict_fields, extra_roots=[init.params[0]], init_env=env)
    out = {}
    for (root, fld), lst in ft.field_stores.items():
        if root == init.params[0]:
            labs = EMPTY
            for labs1, node, kind in lst:
                labs |= labs1
            out[fld] = labs
    return out, exprs


class ResultFields:
    """Labels of every field of the object returned by method f of class c."""

    def __init__(self, repo, c, f, params, dict_fields=(), _depth=0, only_return=None):
        self.repo = repo
        self.c = c
        self.f = f
        self.fields = {}
        self.ctor_calls = []
        self.patch_nodes = {}
        self.result_cls = None
        # candidate result variables: locals assigned from a call
        outs = set()
        for n in walk_local_stmt(f.node):
            if isinstance(n, ast.Assign) and len(n.targets) == 1 and isinstance(n.targets[0], ast.Name) and isinstance(n.value, ast.Call):
                outs.add(n.targets[0].id)
        self.ft = FieldTaint(repo, c, f, params, dict_fields, extra_roots=outs)
        ft = self.ft
        # returned expression(s)
        rets = [n.value for n in walk_local_stmt(f.node) if isinstance(n, ast.Return) and n.value is not None
                and (only_return is None or n is only_return)]
        for rv in rets:
            self._from_expr(rv, dict_fields, _depth)

    def _strip(self, e):
        while isinstance(e, ast.Call) and isinstance(e.func, ast.Attribute) and e.func.attr == "specialize":
            e = e.func.value
        return e

    def _from_expr(self, e, dict_fields, depth):
        e = self._strip(e)
        ft = self.ft
        if isinstance(e, ast.Name):
            var = e.id
            for n in walk_local_stmt(self.f.node):
                if isinstance(n, ast.Assign) and len(n.targets) == 1 and isinstance(n.targets[0], ast.Name) and n.targets[0].id == var:
                    self._from_call(self._strip(n.value), dict_fields, depth)
            for (root, fld), lst in ft.field_stores.items():
                if root == var:
                    sets = [x for x in lst if x[2] == "set"]
                    labs = EMPTY
                    if sets:
                        # an unconditional overwrite replaces what the constructor stored
                        self.fields[fld] = EMPTY
                    for labs1, node, kind in lst:
                        labs |= labs1
                        self.patch_nodes.setdefault(fld, []).append(node)
                    self.fields[fld] = self.fields.get(fld, EMPTY) | labs
        else:
            self._from_call(e, dict_fields, depth)

    def _from_call(self, e, dict_fields, depth):
        if not isinstance(e, ast.Call):
            return
        ft = self.ft
        fn = e.func
        k = None
        if isinstance(fn, (ast.Name, ast.Attribute)):
            try:
                k = self.repo.resolve_name(self.f.module, ast.unparse(fn))
            except Exception:
                k = None
        if isinstance(k, ClassInfo):
            self.result_cls = k
            self.ctor_calls.append(e)
            fl, exprs = ctor_field_labels(self.repo, k, e, lambda x: ft.L(x, ft.env), dict_fields)
            for fld, labs in fl.items():
                self.fields[fld] = self.fields.get(fld, EMPTY) | labs
            return
        # <Class>.ed(...) / another static factory of the class: compose with that factory's own result fields
        if isinstance(fn, ast.Attribute) and isinstance(fn.value, (ast.Name, ast.Attribute)) and depth < 2:
            try:
                kc = self.repo.resolve_name(self.f.module, ast.unparse(fn.value))
            except Exception:
                kc = None
            if isinstance(kc, ClassInfo) and fn.attr in kc.methods and kc.methods[fn.attr].is_static:
                from .jsonio import ResultFields2, bind_call_args
                m = kc.methods[fn.attr]
                env2, _ = bind_call_args(m, e, lambda x: ft.L(x, ft.env))
                sub = ResultFields2(self.repo, kc, m, env2, dict_fields)
                self.result_cls = sub.result_cls or kc
                self.ctor_calls += sub.ctor_calls
                for fld, labs in sub.fields.items():
                    self.fields[fld] = self.fields.get(fld, EMPTY) | labs
                return
        # self.zero(): compose with zero's own result fields
        if isinstance(fn, ast.Attribute) and isinstance(fn.value, ast.Name) and fn.value.id in ft.params and depth < 2:
            m = self.repo.lookup(self.c, fn.attr)
            if isinstance(m, FuncInfo) and fn.attr in ("zero", "copy"):
                sub = ResultFields(self.repo, self.c, m, [m.params[0]], dict_fields, depth + 1)
                self.result_cls = sub.result_cls
                for fld, labs in sub.fields.items():
                    # rename the callee's self to our receiver name
                    ren = frozenset((fn.value.id if p == m.params[0] else p, f2, fl, z) for (p, f2, fl, z) in labs)
                    self.fields[fld] = self.fields.get(fld, EMPTY) | ren


def structural_missing(repo, c, m, f, roots, dict_fields):
    """Structural parameters (bin width, origin, range, low/high, content type ...) of the object a builder returns that do
    not come from an operand - e.g. because the constructor argument was left to its default.  Decided per return statement
    (the early `return self.zero()` of __mul__ must not mask the main path)."""
    rets = [n for n in walk_local_stmt(f.node) if isinstance(n, ast.Return) and n.value is not None]
    missing = []
    last_rf = None
    any_cls = False
    for rn in rets:
        rf = ResultFields(repo, c, f, roots, dict_fields, only_return=rn)
        last_rf = rf
        if rf.result_cls is None:
            continue
        any_cls = True
        derived_from = set(m.structural) | set(m.slots) | ({m.template} if m.template else set())
        for p in list(m.structural) + ([m.template] if m.template else []):
            labs = rf.fields.get(p, frozenset())
            if p == m.template:
                # the template new bins are instantiated from: it has to be the operand's own template
                if any(r in roots and f2 == p for (r, f2, fv, z) in labs):
                    continue
            elif any(r in roots and (f2 == p or f2 in derived_from) for (r, f2, fv, z) in labs):
                continue
            if p not in [x for x, _ in missing]:
                missing.append((p, (rf.ctor_calls or [rn])[0]))
    if not any_cls:
        return None, last_rf
    return missing, last_rf
