"""Writer (toJsonFragment) and reader (fromJsonFragment -> ed -> __init__) models for the JSON agreement rules."""

import ast

from .astutil import call_name, walk_local_stmt
from .builder import ResultFields, bind_call_args
from .loader import AnalysisError, ClassInfo, FuncInfo
from .taint import EMPTY, FieldTaint

ENCODERS = ("floatToJson", "rangeToJson")


class WKey:
    def __init__(self, key, expr, optional, env, level):
        self.key = key
        self.expr = expr
        self.optional = optional
        self.env = env
        self.level = level     # "" for the fragment itself, "<key>[]" for element dicts of a list under <key>
        self.labels = EMPTY
        self.encoded = False
        self.child_call = None  # the `x.toJsonFragment(flag)` call if the value is a child fragment
        self.suppress = None

    @property
    def path(self):
        return f"{self.level}{self.key}"


def _dict_items(d):
    return [(k.value, v) for k, v in zip(d.keys, d.values) if isinstance(k, ast.Constant) and isinstance(k.value, str)]


def writer_keys(repo, c, model):
    """List of WKey for K.toJsonFragment (nested element dicts flattened with a level prefix)."""
    f = repo.own_method(c, "toJsonFragment")
    sn = f.params[0]
    dict_fields = [s for s, k in model.slot_kind.items() if k == "dict"] + (["values"] if model.name == "Bag" else [])
    ft = FieldTaint(repo, c, f, [sn], dict_fields)
    out = []
    scalar_return = None

    def value_info(wk):
        e = wk.expr
        wk.labels = ft.L(e, wk.env)
        # encoder applied to the scalar (or to every element)
        enc = False
        for n in ast.walk(e):
            if isinstance(n, ast.Call) and (call_name(n) or "").split(".")[-1] in ENCODERS:
                enc = True
            if isinstance(n, ast.Call) and isinstance(n.func, ast.Attribute) and n.func.attr == "toJsonFragment":
                wk.child_call = n
                if n.args and isinstance(n.args[0], ast.Constant):
                    wk.suppress = bool(n.args[0].value)
        wk.encoded = enc

    def add_dict(d, optional, env, level):
        for k, v in _dict_items(d):
            wk = WKey(k, v, optional, env, level)
            value_info(wk)
            out.append(wk)
            # nested element dicts: [{"center": ..., "data": ...} for c, v in self.bins] / {k: {...} for ...}
            for n in ast.walk(v):
                if isinstance(n, (ast.ListComp, ast.DictComp)):
                    elt = n.elt if isinstance(n, ast.ListComp) else n.value
                    if isinstance(elt, ast.Dict):
                        env2 = ft.comp_env(n.generators, env)
                        add_dict(elt, False, env2, f"{level}{k}[].")

    single_defs = {}
    for st in walk_local_stmt(f.node):
        if isinstance(st, ast.Assign) and len(st.targets) == 1 and isinstance(st.targets[0], ast.Name):
            single_defs.setdefault(st.targets[0].id, []).append(st.value)

    # a list built by `xs = []` + `for t in it: xs.append(E)` stands for `[E for t in it]`
    for st in walk_local_stmt(f.node):
        if isinstance(st, ast.For) and len(st.body) == 1 and isinstance(st.body[0], ast.Expr) and isinstance(st.body[0].value, ast.Call) and not st.orelse:
            cl = st.body[0].value
            if isinstance(cl.func, ast.Attribute) and cl.func.attr == "append" and isinstance(cl.func.value, ast.Name) and len(cl.args) == 1 and not cl.keywords:
                nm = cl.func.value.id
                defs = single_defs.get(nm, [])
                if len(defs) == 1 and isinstance(defs[0], ast.List) and not defs[0].elts:
                    comp = ast.ListComp(elt=cl.args[0], generators=[ast.comprehension(target=st.target, iter=st.iter, ifs=[], is_async=0)])
                    ast.copy_location(comp, st)
                    ast.fix_missing_locations(comp)
                    single_defs[nm] = [comp]

    def lit(e):
        """a local that names one dict literal (`fragment = {...}` ... `return maybeAdd(fragment, **optional)`) stands for it"""
        hops = 0
        while isinstance(e, ast.Name) and len(single_defs.get(e.id, [])) == 1 and hops < 3:
            e = single_defs[e.id][0]
            hops += 1
        return e

    def later_stores(name):
        """`fragment["name"] = value` after the literal: further keys of the document (optional when under an `if`)"""
        def scan(stmts, conditional):
            for st in stmts:
                if isinstance(st, ast.Assign) and len(st.targets) == 1 and isinstance(st.targets[0], ast.Subscript) and \
                        isinstance(st.targets[0].value, ast.Name) and st.targets[0].value.id == name and \
                        isinstance(st.targets[0].slice, ast.Constant) and isinstance(st.targets[0].slice.value, str):
                    v = st.value
                    hops = 0
                    while isinstance(v, ast.Name) and len(single_defs.get(v.id, [])) == 1 and hops < 3:
                        v = single_defs[v.id][0]
                        hops += 1
                    d1 = ast.Dict(keys=[ast.Constant(value=st.targets[0].slice.value)], values=[v])
                    ast.copy_location(d1, st)
                    add_dict(d1, conditional, env_of, "")
                for fld in ("body", "orelse"):
                    b = getattr(st, fld, None)
                    if isinstance(b, list) and b and isinstance(b[0], ast.stmt) and not isinstance(st, (ast.FunctionDef, ast.ClassDef)):
                        scan(b, True)
        env_of = ft.env
        scan(f.node.body, False)

    def from_return(e, env):
        nonlocal scalar_return
        if isinstance(e, ast.Name) and len(single_defs.get(e.id, [])) == 1 and isinstance(single_defs[e.id][0], ast.Dict):
            later_stores(e.id)
        e = lit(e)
        if isinstance(e, ast.Dict):
            add_dict(e, False, env, "")
        elif isinstance(e, ast.Call) and (call_name(e) or "").split(".")[-1] == "maybeAdd":
            if e.args and isinstance(lit(e.args[0]), ast.Dict):
                if isinstance(e.args[0], ast.Name):
                    later_stores(e.args[0].id)
                add_dict(lit(e.args[0]), False, env, "")
            for kw in e.keywords:
                if kw.arg is None and isinstance(lit(kw.value), ast.Dict):
                    add_dict(lit(kw.value), True, env, "")
                elif kw.arg is not None:
                    wk = WKey(kw.arg, kw.value, True, env, "")
                    value_info(wk)
                    out.append(wk)
        else:
            scalar_return = e

    for n in walk_local_stmt(f.node):
        if isinstance(n, ast.Return) and n.value is not None:
            from_return(n.value, ft.env)
    return f, ft, out, scalar_return


class ReaderModel:
    """JSON-key dependence of every field of the object a reader returns."""

    def __init__(self, repo, c, model):
        from .rules.c15 import JsonPaths, conjuncts, hasKeys_info

        self.repo = repo
        self.c = c
        f = repo.own_method(c, "fromJsonFragment")
        self.f = f
        self.jp = JsonPaths(f, f.params[0])
        self.json = f.params[0]
        self.name_param = f.params[1] if len(f.params) > 1 else None
        # element roots -> source key path
        self.src = {}
        self._sources()
        # gates
        self.gates = {}   # level -> (required, optional)
        for n in walk_local_stmt(f.node):
            if isinstance(n, ast.If):
                for cj in conjuncts(n.test):
                    if isinstance(cj, ast.Call) and (call_name(cj) or "").split(".")[-1] == "hasKeys":
                        info = hasKeys_info(cj)
                        if info:
                            obj, req, opt = info
                            lvl = self.level_of(obj)
                            if lvl is not None:
                                self.gates[lvl] = (req, opt)
        # nanstr acceptance per key path
        self.accepts_nanstr = set()
        self.partial_nanstr = {}
        for n in walk_local_stmt(f.node):
            if isinstance(n, ast.Compare) and len(n.ops) == 1 and isinstance(n.ops[0], (ast.In, ast.NotIn)) and isinstance(
                    n.comparators[0], (ast.Tuple, ast.List)):
                vals = [e.value for e in n.comparators[0].elts if isinstance(e, ast.Constant)]
                if vals and set(vals) <= {"nan", "inf", "-inf"}:
                    kp = self.keypath(n.left)
                    if kp:
                        self.accepts_nanstr.add(kp)
                        missing = {"nan", "inf", "-inf"} - set(vals)
                        if missing:
                            self.partial_nanstr.setdefault(kp, (sorted(missing), n))
        self.env = {}
        self._propagate()

    # -------------------------------------------------------------- key paths
    def _sources(self):
        f = self.f
        changed = True
        while changed:
            changed = False
            for n in walk_local_stmt(f.node):
                gens = []
                if isinstance(n, ast.For):
                    gens.append((n.target, n.iter))
                elif isinstance(n, (ast.ListComp, ast.SetComp, ast.DictComp, ast.GeneratorExp)):
                    gens += [(g.target, g.iter) for g in n.generators]
                for tgt, it in gens:
                    kind, p = self.jp.iter_source(it)
                    if p is None:
                        continue
                    base = self.keypath_of_pathtext(it, kind)
                    if base is None:
                        continue
                    names = [x.id for x in ast.walk(tgt) if isinstance(x, ast.Name)]
                    for nm in names:
                        if self.jp.roots.get(nm) == "elem" and nm not in self.src:
                            self.src[nm] = base + "[]"
                            changed = True
                        elif nm in self.jp.strkeys and nm not in self.src:
                            self.src[nm] = base + "{keys}"
                            changed = True

    def keypath_of_pathtext(self, it, kind):
        e = it
        if isinstance(e, ast.Call):
            if call_name(e) == "enumerate" and e.args:
                e = e.args[0]
            elif isinstance(e.func, ast.Attribute) and e.func.attr in ("items", "values", "keys"):
                e = e.func.value
        return self.keypath(e)

    def keypath(self, e):
        """'low' / 'bins[].center' for a JSON value expression, else None."""
        if isinstance(e, ast.Name):
            if e.id == self.json:
                return ""
            return self.src.get(e.id)
        if isinstance(e, ast.Subscript) and isinstance(e.slice, ast.Constant) and isinstance(e.slice.value, str):
            b = self.keypath(e.value)
            if b is None:
                return None
            return (b + "." if b else "") + e.slice.value
        if isinstance(e, ast.Call) and isinstance(e.func, ast.Attribute) and e.func.attr == "get" and e.args and isinstance(
                e.args[0], ast.Constant):
            b = self.keypath(e.func.value)
            if b is None:
                return None
            return (b + "." if b else "") + e.args[0].value
        return None

    def level_of(self, obj):
        kp = self.keypath(obj)
        if kp is None:
            return None
        return "" if kp == "" else kp + "."

    # -------------------------------------------------------------- propagation of key labels through locals
    def K(self, e, env):
        if e is None:
            return frozenset()
        kp = self.keypath(e) if isinstance(e, (ast.Subscript, ast.Call, ast.Name)) else None
        if kp:
            return frozenset([kp])
        if isinstance(e, ast.Name):
            return env.get(e.id, frozenset())
        if isinstance(e, (ast.ListComp, ast.SetComp, ast.GeneratorExp)):
            return self.K(e.elt, env) | frozenset().union(*[self.K(g.iter, env) for g in e.generators])
        if isinstance(e, ast.DictComp):
            return self.K(e.key, env) | self.K(e.value, env) | frozenset().union(*[self.K(g.iter, env) for g in e.generators])
        out = frozenset()
        for ch in ast.iter_child_nodes(e):
            if isinstance(ch, ast.expr):
                out |= self.K(ch, env)
            elif isinstance(ch, ast.keyword):
                out |= self.K(ch.value, env)
        return out

    def _propagate(self):
        env = {}
        for _ in range(6):
            before = dict(env)
            for n in walk_local_stmt(self.f.node):
                if isinstance(n, ast.Assign):
                    ks = self.K(n.value, env)
                    for t in n.targets:
                        if isinstance(t, ast.Name):
                            env[t.id] = env.get(t.id, frozenset()) | ks
                        elif isinstance(t, ast.Subscript) and isinstance(t.value, ast.Name):
                            env[t.value.id] = env.get(t.value.id, frozenset()) | ks | self.K(t.slice, env)
                elif isinstance(n, ast.Expr) and isinstance(n.value, ast.Call) and isinstance(n.value.func, ast.Attribute) and \
                        n.value.func.attr in ("append", "add", "update") and isinstance(n.value.func.value, ast.Name):
                    ks = frozenset().union(*[self.K(a, env) for a in n.value.args]) if n.value.args else frozenset()
                    env[n.value.func.value.id] = env.get(n.value.func.value.id, frozenset()) | ks
            if env == before:
                break
        self.env = env

    # -------------------------------------------------------------- the ed call and the fields it populates
    def ed_call(self):
        for n in walk_local_stmt(self.f.node):
            if isinstance(n, ast.Call) and isinstance(n.func, ast.Attribute) and n.func.attr == "ed":
                k = self.repo.resolve_name(self.f.module, ast.unparse(n.func.value)) if isinstance(n.func.value, (ast.Name, ast.Attribute)) else None
                if isinstance(k, ClassInfo):
                    return n, k
        # another static factory of the class (`Fraction.build(...)`) used in place of ed(): followed like ed()
        for n in walk_local_stmt(self.f.node):
            if isinstance(n, ast.Call) and isinstance(n.func, ast.Attribute) and isinstance(n.func.value, (ast.Name, ast.Attribute)):
                k = self.repo.resolve_name(self.f.module, ast.unparse(n.func.value))
                if isinstance(k, ClassInfo) and n.func.attr in k.methods and k.methods[n.func.attr].is_static and n.func.attr != "fromJsonFragment" \
                        and k.name == self.c.name:
                    self.factory_name = n.func.attr
                    return n, k
        return None, None

    def field_keys(self, model):
        """field -> set of JSON key paths that populate it (through ed and the constructor)."""
        call, k = self.ed_call()
        if call is None:
            raise AnalysisError(f"{self.f.construct}: no call to <Class>.ed(...)")
        ed = self.repo.method(k, getattr(self, "factory_name", "ed"))
        env, exprs = bind_call_args(ed, call, lambda x: frozenset(("JSON", kp, "full", False) for kp in self.K(x, self.env)))
        dict_fields = [s for s, kk in model.slot_kind.items() if kk == "dict"]
        rf = ResultFields2(self.repo, k, ed, env, dict_fields)
        out = {}
        for fld, labs in rf.fields.items():
            out[fld] = {kp for (p, kp, fv, z) in labs if p == "JSON"}
        return out, call, ed, env, exprs


class ResultFields2(ResultFields):
    """ResultFields for a static factory method whose parameters carry injected labels."""

    def __init__(self, repo, c, f, init_env, dict_fields=()):
        self.repo = repo
        self.c = c
        self.f = f
        self.fields = {}
        self.ctor_calls = []
        self.patch_nodes = {}
        self.result_cls = None
        outs = set()
        for n in walk_local_stmt(f.node):
            if isinstance(n, ast.Assign) and len(n.targets) == 1 and isinstance(n.targets[0], ast.Name) and isinstance(n.value, ast.Call):
                outs.add(n.targets[0].id)
        self.ft = FieldTaint(repo, c, f, [], dict_fields, extra_roots=outs, init_env=init_env)
        rets = [n.value for n in walk_local_stmt(f.node) if isinstance(n, ast.Return) and n.value is not None]
        for rv in rets:
            self._from_expr(rv, dict_fields, 0)
