"""Statement-level control-flow graphs and a generic dataflow solver (DESIGN 2.2)."""

import ast

from .loader import AnalysisError


class Node:
    __slots__ = ("id", "kind", "ast", "stmt", "succ", "pred", "in_loops", "handlers")

    def __init__(self, id, kind, astnode=None, stmt=None):
        self.id = id
        self.kind = kind  # entry | return-exit | raise-exit | stmt | test | iter | with | handler | join
        self.ast = astnode
        self.stmt = stmt if stmt is not None else astnode
        self.succ = []  # (label, id)
        self.pred = []  # (label, id)
        self.in_loops = ()
        self.handlers = ()

    @property
    def lineno(self):
        return getattr(self.stmt, "lineno", 0)

    def __repr__(self):
        return f"<N{self.id} {self.kind} L{self.lineno}>"


class CFG:
    def __init__(self, func):
        self.func = func
        self.nodes = []
        self.entry = self._new("entry")
        self.ret = self._new("return-exit")
        self.rai = self._new("raise-exit")
        self._loops = []  # (head_id, break_list)
        self._handlers = []  # list of lists of handler entry ids
        self._finally = []
        ends = self._block(func.body, [(self.entry.id, "next")])
        for nid, lab in ends:
            self._edge(nid, lab, self.ret.id)
        for n in self.nodes:
            for lab, s in n.succ:
                self.nodes[s].pred.append((lab, n.id))

    def _new(self, kind, astnode=None, stmt=None):
        n = Node(len(self.nodes), kind, astnode, stmt)
        n.in_loops = tuple(h for h, _, _ in self._loops) if hasattr(self, "_loops") else ()
        n.handlers = tuple(tuple(h) for h in self._handlers) if hasattr(self, "_handlers") else ()
        self.nodes.append(n)
        return n

    def _edge(self, a, lab, b):
        if (lab, b) not in self.nodes[a].succ:
            self.nodes[a].succ.append((lab, b))

    def _attach(self, ends, nid):
        for a, lab in ends:
            self._edge(a, lab, nid)

    def _exc_edges(self, n):
        """A statement inside try: may jump to every handler of the innermost try."""
        if self._handlers:
            for h in self._handlers[-1]:
                self._edge(n.id, "exc", h)

    def _block(self, stmts, ends):
        for st in stmts:
            ends = self._stmt(st, ends)
        return ends

    def _stmt(self, st, ends):
        if isinstance(st, (ast.FunctionDef, ast.AsyncFunctionDef, ast.ClassDef)):
            n = self._new("stmt", st)
            self._attach(ends, n.id)
            return [(n.id, "next")]
        if isinstance(st, ast.If):
            t = self._new("test", st.test, st)
            self._attach(ends, t.id)
            self._exc_edges(t)
            e1 = self._block(st.body, [(t.id, "T")])
            e2 = self._block(st.orelse, [(t.id, "F")]) if st.orelse else [(t.id, "F")]
            return e1 + e2
        if isinstance(st, ast.While):
            t = self._new("test", st.test, st)
            self._attach(ends, t.id)
            self._exc_edges(t)
            brk = []
            self._loops.append((t.id, brk, "while"))
            e = self._block(st.body, [(t.id, "T")])
            self._loops.pop()
            self._attach(e, t.id)
            out = [(t.id, "F")]
            if st.orelse:
                out = self._block(st.orelse, out)
            return out + brk
        if isinstance(st, (ast.For, ast.AsyncFor)):
            t = self._new("iter", st.iter, st)
            self._attach(ends, t.id)
            self._exc_edges(t)
            brk = []
            self._loops.append((t.id, brk, "for"))
            e = self._block(st.body, [(t.id, "iter")])
            self._loops.pop()
            self._attach(e, t.id)
            out = [(t.id, "done")]
            if st.orelse:
                out = self._block(st.orelse, out)
            return out + brk
        if isinstance(st, ast.Break):
            n = self._new("stmt", st)
            self._attach(ends, n.id)
            if not self._loops:
                raise AnalysisError("break outside loop")
            self._loops[-1][1].append((n.id, "break"))
            return []
        if isinstance(st, ast.Continue):
            n = self._new("stmt", st)
            self._attach(ends, n.id)
            self._edge(n.id, "continue", self._loops[-1][0])
            return []
        if isinstance(st, ast.Return):
            n = self._new("stmt", st)
            self._attach(ends, n.id)
            self._exc_edges(n)
            self._edge(n.id, "return", self.ret.id)
            return []
        if isinstance(st, ast.Raise):
            n = self._new("stmt", st)
            self._attach(ends, n.id)
            if self._handlers:
                for h in self._handlers[-1]:
                    self._edge(n.id, "exc", h)
                # a handler may not match: the raise can also leave the function
            self._edge(n.id, "raise", self.rai.id)
            return []
        if isinstance(st, (ast.With, ast.AsyncWith)):
            n = self._new("with", st, st)
            self._attach(ends, n.id)
            self._exc_edges(n)
            return self._block(st.body, [(n.id, "next")])
        if isinstance(st, ast.Try) or (hasattr(ast, "TryStar") and isinstance(st, ast.TryStar)):
            hentries = []
            hnodes = []
            for h in st.handlers:
                hn = self._new("handler", h, h)
                hentries.append(hn.id)
                hnodes.append(hn)
            self._handlers.append(hentries)
            j = self._new("join", st, st)  # try-entry marker so that an empty body still has a node
            self._attach(ends, j.id)
            e = self._block(st.body, [(j.id, "next")])
            self._handlers.pop()
            if st.orelse:
                e = self._block(st.orelse, e)
            out = list(e)
            for hn, h in zip(hnodes, st.handlers):
                out += self._block(h.body, [(hn.id, "next")])
            if st.finalbody:
                out = self._block(st.finalbody, out)
            return out
        if isinstance(st, ast.Assert):
            n = self._new("stmt", st)
            self._attach(ends, n.id)
            self._exc_edges(n)
            self._edge(n.id, "assert-fail", self.rai.id)
            return [(n.id, "next")]
        if isinstance(st, ast.Match):
            raise AnalysisError(f"match statement at line {st.lineno} is outside the supported subset")
        n = self._new("stmt", st)
        self._attach(ends, n.id)
        self._exc_edges(n)
        return [(n.id, "next")]

    # ------------------------------------------------------------------ graph algorithms
    def reachable(self, start=None):
        start = self.entry.id if start is None else start
        seen = {start}
        work = [start]
        while work:
            x = work.pop()
            for _, s in self.nodes[x].succ:
                if s not in seen:
                    seen.add(s)
                    work.append(s)
        return seen

    def dominators(self):
        """dom[n] = set of nodes dominating n (forward, from entry)."""
        reach = self.reachable()
        alln = set(reach)
        dom = {n: set(alln) for n in reach}
        dom[self.entry.id] = {self.entry.id}
        changed = True
        order = sorted(reach)
        while changed:
            changed = False
            for n in order:
                if n == self.entry.id:
                    continue
                preds = [p for _, p in self.nodes[n].pred if p in reach]
                new = set.intersection(*[dom[p] for p in preds]) if preds else set()
                new = new | {n}
                if new != dom[n]:
                    dom[n] = new
                    changed = True
        return dom

    def postdominators(self):
        """pdom[n] over a virtual exit joining return-exit and raise-exit."""
        ids = [n.id for n in self.nodes]
        EXIT = -1
        succ = {n.id: [s for _, s in n.succ] for n in self.nodes}
        succ[self.ret.id] = [EXIT]
        succ[self.rai.id] = [EXIT]
        for i in ids:
            if not succ[i]:
                succ[i] = [EXIT]
        allset = set(ids) | {EXIT}
        pdom = {i: set(allset) for i in ids}
        pdom[EXIT] = {EXIT}
        changed = True
        while changed:
            changed = False
            for i in reversed(ids):
                new = set.intersection(*[pdom[s] for s in succ[i]]) | {i}
                if new != pdom[i]:
                    pdom[i] = new
                    changed = True
        return pdom

    def control_deps(self):
        """cd[n] = set of (branch node id, label) on which n is control dependent."""
        pdom = self.postdominators()
        cd = {n.id: set() for n in self.nodes}
        for a in self.nodes:
            if len(a.succ) < 2:
                continue
            for lab, b in a.succ:
                # nodes that postdominate b but do not strictly postdominate a
                for n in self.nodes:
                    if n.id in pdom[b] and (n.id == a.id or n.id not in pdom[a.id]):
                        cd[n.id].add((a.id, lab))
        return cd

    def transitive_control_deps(self):
        cd = self.control_deps()
        out = {}
        for n in cd:
            seen = set()
            work = list(cd[n])
            while work:
                x = work.pop()
                if x in seen:
                    continue
                seen.add(x)
                work.extend(cd[x[0]])
            out[n] = seen
        return out


def solve_forward(cfg, init, transfer, join, start=None, edge_filter=None):
    """Generic forward worklist solver.

    transfer(node, in_state) -> out_state  or  {label: out_state} for per-edge states.
    join(a, b) -> state ; states must support ==.
    Returns dict node id -> in_state.
    """
    start = cfg.entry.id if start is None else start
    instate = {start: init}
    work = [start]
    while work:
        nid = work.pop()
        node = cfg.nodes[nid]
        out = transfer(node, instate[nid])
        for lab, s in node.succ:
            if edge_filter is not None and not edge_filter(node, lab, s):
                continue
            o = out.get(lab, out.get(None)) if isinstance(out, dict) else out
            if o is None:
                continue
            if s in instate:
                new = join(instate[s], o)
                if new != instate[s]:
                    instate[s] = new
                    if s not in work:
                        work.append(s)
            else:
                instate[s] = o
                work.append(s)
    return instate


def build(funcnode):
    return CFG(funcnode)
