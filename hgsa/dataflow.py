"""Definitions/uses per CFG node, reaching definitions, per-iteration definite assignment."""

import ast

from .astutil import store_targets
from .cfg import solve_forward


def header_exprs(node):
    """The expressions evaluated *at* this CFG node (for compound statements only the header)."""
    k = node.kind
    a = node.ast
    if k in ("test", "iter"):
        return [a]
    if k == "with":
        return [i.context_expr for i in a.items]
    if k == "handler":
        return [a.type] if a.type is not None else []
    if k == "stmt":
        if isinstance(a, (ast.FunctionDef, ast.AsyncFunctionDef, ast.ClassDef)):
            return list(a.decorator_list)
        return [a]
    return []


def _comp_bound(expr):
    """Names bound inside comprehensions / lambdas of expr (not function-level variables)."""
    bound = set()
    for n in ast.walk(expr):
        if isinstance(n, (ast.ListComp, ast.SetComp, ast.DictComp, ast.GeneratorExp)):
            for g in n.generators:
                for t in ast.walk(g.target):
                    if isinstance(t, ast.Name):
                        bound.add(t.id)
        elif isinstance(n, ast.Lambda):
            a = n.args
            for p in a.posonlyargs + a.args + a.kwonlyargs:
                bound.add(p.arg)
            if a.vararg:
                bound.add(a.vararg.arg)
            if a.kwarg:
                bound.add(a.kwarg.arg)
    return bound


def node_uses(node):
    """[(name, ast.Name)] loaded at this CFG node (excluding comprehension/lambda-bound names)."""
    out = []
    for e in header_exprs(node):
        if e is None:
            continue
        bound = _comp_bound(e)
        for n in ast.walk(e):
            if isinstance(n, ast.Name) and isinstance(n.ctx, ast.Load) and n.id not in bound:
                out.append((n.id, n))
            elif isinstance(n, ast.AugAssign) and isinstance(n.target, ast.Name):
                out.append((n.target.id, n.target))
    return out


def node_defs(node):
    """Names (plain variables) defined at this CFG node; for `for` the targets are defined on the iter edge."""
    out = set()
    a = node.ast
    if node.kind == "stmt":
        if isinstance(a, (ast.Assign, ast.AugAssign, ast.AnnAssign, ast.Delete)):
            for t in store_targets(a):
                if isinstance(t, ast.Name):
                    out.add(t.id)
        elif isinstance(a, (ast.Import, ast.ImportFrom)):
            for al in a.names:
                out.add((al.asname or al.name).split(".")[0])
        elif isinstance(a, (ast.FunctionDef, ast.AsyncFunctionDef, ast.ClassDef)):
            out.add(a.name)
        # walrus
        for n in ast.walk(a):
            if isinstance(n, ast.NamedExpr) and isinstance(n.target, ast.Name):
                out.add(n.target.id)
    elif node.kind == "iter":
        for t in store_targets(node.stmt):
            if isinstance(t, ast.Name):
                out.add(t.id)
    elif node.kind == "with":
        for t in store_targets(a):
            if isinstance(t, ast.Name):
                out.add(t.id)
    elif node.kind == "handler":
        if a.name:
            out.add(a.name)
    elif node.kind == "test":
        for n in ast.walk(a):
            if isinstance(n, ast.NamedExpr) and isinstance(n.target, ast.Name):
                out.add(n.target.id)
    return out


def plain_assign_defs(node):
    """Like node_defs but only plain (non-augmented) assignments and for-targets."""
    a = node.ast
    if node.kind == "stmt" and isinstance(a, ast.AugAssign):
        return set()
    return node_defs(node)


def func_params(func):
    a = func.args
    names = [p.arg for p in a.posonlyargs + a.args + a.kwonlyargs]
    if a.vararg:
        names.append(a.vararg.arg)
    if a.kwarg:
        names.append(a.kwarg.arg)
    return names


UNDEF = -1


def reaching_defs(cfg):
    """node id -> {var: frozenset(def node ids | UNDEF | 0 for params)} at node entry."""
    locs = set()
    for n in cfg.nodes:
        locs |= node_defs(n)
    params = set(func_params(cfg.func))
    init = {}
    for v in locs | params:
        init[v] = frozenset([cfg.entry.id]) if v in params else frozenset([UNDEF])
    init = _freeze(init)

    def transfer(node, st):
        d = dict(st)
        defs = node_defs(node)
        if node.kind == "iter":
            st_iter = dict(d)
            for v in defs:
                st_iter[v] = frozenset([node.id])
            return {"iter": _freeze(st_iter), "done": st, "exc": st, None: st}
        for v in defs:
            d[v] = frozenset([node.id])
        return _freeze(d)

    def join(a, b):
        da, db = dict(a), dict(b)
        out = {}
        for v in set(da) | set(db):
            out[v] = da.get(v, frozenset()) | db.get(v, frozenset())
        return _freeze(out)

    res = solve_forward(cfg, init, transfer, join)
    return {k: dict(v) for k, v in res.items()}


def _freeze(d):
    return tuple(sorted(d.items()))


def loop_body_nodes(cfg, head_id):
    return [n for n in cfg.nodes if head_id in n.in_loops]


def per_iteration_must(cfg, head, gen):
    """Must-analysis inside one loop iteration.

    head: the `iter`/`test` node of the loop; gen(node) -> set of facts generated at node.
    Returns (instate by node id, facts on each edge leaving the iteration: [(from_id, label, to_id, facts)]).
    The state at the start of the iteration is gen(head) (the for-targets).  Back edges to head and
    edges leaving the body terminate the analysis (their facts are returned).
    """
    body = {n.id for n in loop_body_nodes(cfg, head.id)}
    start_label = "iter" if head.kind == "iter" else "T"
    init = frozenset(gen(head))
    instate = {}
    work = []
    exits = []
    for lab, s in head.succ:
        if lab == start_label:
            instate[s] = init
            work.append(s)
    while work:
        nid = work.pop()
        node = cfg.nodes[nid]
        if nid not in body:
            continue
        out = instate[nid] | frozenset(gen(node))
        for lab, s in node.succ:
            if s == head.id or s not in body:
                exits.append((nid, lab, s, out))
                continue
            if s in instate:
                new = instate[s] & out
                if new != instate[s]:
                    instate[s] = new
                    work.append(s)
            else:
                instate[s] = out
                work.append(s)
    # exits may have been recorded with stale facts before convergence: recompute at the end
    final = []
    seen = set()
    for nid, lab, s, _ in exits:
        if (nid, lab, s) in seen:
            continue
        seen.add((nid, lab, s))
        final.append((nid, lab, s, instate[nid] | frozenset(gen(cfg.nodes[nid]))))
    return instate, final
