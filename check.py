#!/venv/bin/python
"""Entry point: static checks of the 17 properties against /repo's current source.

  check.py Cxx [--tier quick|thorough]   run every rule of one property, write evidence/Cxx.json
  check.py --all [--tier ...]            run all claimed properties (development aid)
  check.py --selfcheck                   parse the tree, verify anchors (MANIFEST.setup_cmd)
  check.py --replay <path>               re-run the rule of a recorded violation on its construct

exit 0: every rule held (known findings are printed as KNOWN-FINDING lines)
exit 1: a line "VIOLATION property=<id> replay=<path>" was printed
exit 2: "ANALYSIS-ERROR ..." - an anchor vanished or a construct is outside the supported subset
"""

import importlib
import json
import os
import sys
import traceback

HERE = os.path.dirname(os.path.abspath(__file__))
sys.path.insert(0, HERE)

from hgsa.loader import AnalysisError, Repo, primitives  # noqa: E402
from hgsa.report import Report  # noqa: E402

PROPS = [f"C{i:02d}" for i in range(1, 18)]


def run_property(prop, tier, seed, repo=None, write=True, only_rule=None):
    mod = importlib.import_module(f"hgsa.rules.{prop.lower()}")
    repo = repo or Repo()
    rep = Report(prop, tier)
    rep.only_rule = only_rule
    mod.run(repo, rep, tier)
    if tier == "thorough" and only_rule is None and not os.environ.get("HGSA_NO_SELFVAL"):
        from hgsa import selfval

        sv = selfval.run(prop, repo.root)
        rep.extra["self_validation"] = sv
        print(f"   self-validation: {sv['killed']}/{sv['mutants']} broken variants reported, "
              f"{sv['neutral_silent']}/{sv['neutral_twins']} neutral twins silent, {len(sv['skipped'])} skipped")
        for m in sv["missed"]:
            print(f"   SELF-VALIDATION missed: {m}")
        for m in sv["neutral_alarms"]:
            print(f"   SELF-VALIDATION neutral twin alarmed: {m}")
        from hgsa import neutral

        nt = neutral.run_property(prop)
        rep.extra["neutral_transformations"] = nt
        print(f"   behaviour-preserving transformations of the whole package: {nt['silent']}/{nt['transformations']} silent")
        for m in nt["problems"]:
            print(f"   NEUTRAL-TRANSFORMATION alarmed: {m}")
    if os.environ.get("HGSA_NO_EVIDENCE"):   # development runs against scratch variants must not touch the evidence files
        write = False
    return rep.finish(seed=seed, write=write)


def main(argv):
    tier = os.environ.get("VERIF_TIER", "quick")
    seed = int(os.environ.get("VERIF_SEED", "0") or 0)
    args = list(argv)
    if "--tier" in args:
        i = args.index("--tier")
        tier = args[i + 1]
        del args[i:i + 2]
    if tier not in ("quick", "thorough"):
        tier = "quick"
    try:
        if "--selfcheck" in args:
            repo = Repo()
            prims, reg = primitives(repo)
            missing = [c.name for c in prims if c.name not in reg]
            if missing:
                raise AnalysisError(f"primitives not registered with Factory.register: {missing}")
            nfun = sum(1 for _ in repo.all_functions())
            print(f"selfcheck ok: {len(repo.modules)} modules, {sum(len(v) for v in repo.classes.values())} classes, "
                  f"{nfun} functions, {len(prims)} primitives registered")
            return 0
        if "--replay" in args:
            path = args[args.index("--replay") + 1]
            with open(path) as f:
                d = json.load(f)
            print(f"replaying rule {d['rule']} of {d['property']} on {d['construct']}")
            rc = run_property(d["property"], tier, seed, write=False, only_rule=d["rule"])
            return rc
        if "--all" in args:
            worst = 0
            for p in PROPS:
                try:
                    rc = run_property(p, tier, seed)
                except ModuleNotFoundError:
                    print(f"== {p}: no check module")
                    continue
                worst = max(worst, rc)
            return worst
        props = [a for a in args if a in PROPS]
        if len(props) != 1:
            print(__doc__)
            return 2
        return run_property(props[0], tier, seed)
    except AnalysisError as e:
        print(f"ANALYSIS-ERROR {e}")
        return 2
    except Exception:  # any traceback is an analysis failure, never a violation
        tb = traceback.format_exc()
        print("ANALYSIS-ERROR internal error in the analyser:\n" + tb)
        return 2


if __name__ == "__main__":
    sys.exit(main(sys.argv[1:]))
