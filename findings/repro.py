#!/venv/bin/python
"""Reproductions of the genuine defects found by the static checks (documentation, NOT part of any check).

Each function returns True when the defect is PRESENT on the histogrammar importable from sys.path.
Usage:  PYTHONPATH=<tree> /venv/bin/python /verif/findings/repro.py      (default: the installed /repo)
The output recorded against the unfixed snapshot (342474f) and the fixed tree is in findings/README.md.
"""
import json
import math
import sys

import numpy as np

import histogrammar as hg
from histogrammar import util


def q(x):
    return x


def f01_bag_iadd():
    a, b = hg.Bag(q, "N"), hg.Bag(q, "N")
    a.fill(1.0)
    b.fill(2.0)
    ref = a + b
    a += b
    leaked = a.values is b.values
    return not (a == ref) or leaked


def f02_sum_iadd_guard():
    s, c = hg.Sum(q), hg.Count()
    c.fill(1.0)
    try:
        s += c
    except hg.defs.ContainerException:
        return False
    except AttributeError:
        return s.entries != 0.0  # partially merged before failing
    return True


def f03_sparse_add_alias():
    a = hg.SparselyBin(1.0, q)
    a.fill(0.5)
    c = a.copy()
    c.fill(0.5)
    return a.bins[0].entries != 1.0


def f04_select_default():
    s1, s2 = hg.Select(q), hg.Select(q)
    s1.fill(1.0)
    return s2.cut.entries != 0.0


def f05_sparse_eq():
    a, b = hg.SparselyBin(1.0, q), hg.SparselyBin(1.0, q)
    a.fill(0.5)
    b.fill(0.5)
    b.bins[0].fill(None, 5.0)
    b.entries = a.entries
    return a == b


def f06_zip_eq():
    a = hg.IrregularlyBin([1.0], q)
    b = hg.IrregularlyBin([1.0, 2.0], q)
    return a == b


def f07_bag_eq_type():
    try:
        return (hg.Bag(q, "N") == hg.Count()) is not False
    except AttributeError:
        return True


def f08_mul_tuple():
    a = hg.IrregularlyBin([1.0], q)
    a.fill(0.5)
    s = a * 2.0
    try:
        hash(s)
        s.fill(0.5)
    except TypeError:
        return True
    return False


def f09_centrally_zero_reloaded():
    a = hg.CentrallyBin([1.0, 2.0], q)
    r = hg.Factory.fromJson(a.toJson())
    try:
        r.copy()
    except TypeError:
        return True
    return False


def f10_content_type_lost():
    a = hg.SparselyBin(1.0, q, hg.Sum(q))
    r = hg.Factory.fromJson(a.toJson())
    return r.zero().toJson()["data"]["bins:type"] != "Sum"


def f11_centrally_json_center():
    a = hg.CentrallyBin([1.0, 2.0, 3.0], q)
    doc = a.toJson()
    doc["data"]["bins"][1]["center"] = [1, 2]
    try:
        r = hg.Factory.fromJson(doc)
    except Exception:
        return False
    return True


def f12_branch_json_dropped():
    a = hg.Branch(hg.Count(), hg.Sum(q))
    doc = a.toJson()
    doc["data"]["data"][1] = 17
    try:
        r = hg.Factory.fromJson(doc)
    except Exception:
        return False
    return len(r.values) != 2


def f13_label_named_entries():
    a = hg.Label(entries=hg.Count())
    try:
        hg.Factory.fromJson(a.toJson())
    except TypeError:
        return True
    return False


def f14_header_extra_key():
    doc = hg.Count().toJson()
    doc["extra"] = 1
    try:
        hg.Factory.fromJson(doc)
    except Exception:
        return False
    return True


def f15_cross_reference():
    c = hg.Count()
    h = hg.Label(a=c, b=c)
    try:
        h.fill(1.0)
    except hg.defs.ContainerException:
        return False
    return c.entries == 2.0


def f16_sparse_rollback():
    def bad(x):
        raise RuntimeError("boom")

    h = hg.SparselyBin(1.0, q, hg.Sum(bad))
    try:
        h.fill(0.5)
    except RuntimeError:
        pass
    return len(h.bins) != 0


def f17_bin_numpy_high():
    h = hg.Bin(2, 0.0, 1.0, q)
    h.fill.numpy(np.array([1.0, 0.5, 0.25]))
    total = sum(v.entries for v in h.values) + h.overflow.entries + h.underflow.entries + h.nanflow.entries
    return total != h.entries


def f18_bin_index_clamp():
    h = hg.Bin(10, -1e16, 1.0, q)
    try:
        h.fill(0.5)
    except IndexError:
        return True
    h2 = hg.Bin(10, -1e16, 1.0, q, hg.Sum(q))
    h2.fill.numpy(np.array([0.5]))
    return sum(v.entries for v in h2.values) != 1.0


def f19_content_type_merge():
    a, b = hg.Categorize(q, hg.Count()), hg.Categorize(q, hg.Sum(lambda x: 1.0))
    a.fill("x")
    b.fill("y")
    try:
        a + b
    except hg.defs.ContainerException:
        return False
    return True


def f20_iadd_not_atomic():
    a = hg.Bin(2, 0, 1, q, hg.Bin(2, 0, 1, q))
    b = hg.Bin(2, 0, 1, q, hg.Bin(3, 0, 1, q))
    b.fill(0.5)
    try:
        a += b
    except hg.defs.ContainerException:
        return a.entries != 0.0
    return True


def f21_irregular_bin_entries():
    h = hg.IrregularlyBin([1.0, 2.0], q)
    h.fill(1.5)
    try:
        return list(h.bin_entries(xvalues=[1.5])) != [1.0]
    except AttributeError:
        return True


def f22_cached_np():
    f = util.cached(lambda x: x + 1)
    f(1)
    try:
        return f(2) != 3
    except AttributeError:
        return True


def f23_sum_numpy_nan():
    a, b = hg.Sum(q), hg.Sum(q)
    for x in (1.0, float("nan"), 2.0):
        a.fill(x)
    b.fill.numpy(np.array([1.0, float("nan"), 2.0]))
    return not (math.isnan(a.sum) and math.isnan(b.sum))


def f24_sparse_origin_json():
    h = hg.SparselyBin(1.0, q, origin=0.0)
    h.origin = float("inf")
    try:
        json.dumps(h.toJson(), allow_nan=False)
    except ValueError:
        return True
    return False


def f25_select_eq_ignores_quantity():
    from histogrammar.util import named

    f = lambda x: x > 0   # noqa: E731
    a, b = hg.Select(named("pos", f), hg.Count()), hg.Select(named("other", f), hg.Count())
    return a == b and a.toJson() != b.toJson()


def f26_count_transform_scalar_weight():
    import numpy as np

    h = hg.Branch(hg.Sum(lambda x: x), hg.Count(lambda w: 2 * w))
    h.fill.numpy(np.arange(5.0))
    return h.values[1].entries != 10.0


def f27_cached_stale_after_exception():
    from histogrammar.util import cached

    def f(x):
        if x == 2:
            raise ValueError("bad record")
        return x * 10

    g = cached(f)
    g(1)
    try:
        g(2)
    except ValueError:
        pass
    try:
        return g(2) == 10
    except ValueError:
        return False


def f28_named_after_cached_string():
    from histogrammar.util import cached, named

    try:
        return not (named("n", cached("x + y")) == cached(named("n", "x + y")))
    except ValueError:
        return True


def f29_centrallybin_plus_select():
    a = hg.CentrallyBin([1, 2, 3], lambda x: x)
    b = hg.Select(lambda x: x > 0, hg.CentrallyBin([1, 2, 3], lambda x: x))
    for x in (1, 2, 3, 2.5):
        a.fill(x)
        b.fill(x)
    try:
        a + b
        return True          # merged silently through Select's attribute forwarding
    except hg.defs.ContainerException:
        return False


def f30_bin_centers_arange_length():
    h = hg.Bin(231, -0.555, 7.345, lambda x: x)
    return len(h.bin_centers()) != h.num_bins()


def f31_sparse_grid_ranges_length():
    import random
    random.seed(2)
    for _ in range(60):
        wx, wy, ox = round(random.uniform(0.05, 3), 2), round(random.uniform(0.05, 3), 2), round(random.uniform(-3, 3), 2)
        h = hg.SparselyBin(wx, lambda d: d[0], hg.SparselyBin(wy, lambda d: d[1]), origin=ox)
        for _ in range(12):
            h.fill((random.uniform(-5, 5), random.uniform(-5, 5)))
        xr, yr, g = h.xy_ranges_grid()
        if len(xr) != g.shape[1] + 1 or len(yr) != g.shape[0] + 1:
            return True
    return False


def f32_average_zero_weight_batch():
    import numpy as np
    for mk in (lambda: hg.Average(lambda x: x), lambda: hg.Deviate(lambda x: x)):
        s = hg.Select(lambda x: x > 100, mk())
        s.fill(500.0)
        try:
            s.fill.numpy(np.array([1.0, 2.0, 3.0]))        # no row passes the cut
        except ZeroDivisionError:
            return True
    return False


def f33_count_first_in_collection():
    import numpy as np
    h = hg.Branch(hg.Count(), hg.Sum(lambda x: x))
    h.fill.numpy(np.array([1.0, 2.0, 3.0]))
    return h.i0.entries != 3.0


def f34_sparselybin_numpy_beyond_int64():
    import numpy as np
    import warnings
    h = hg.SparselyBin(0.5, lambda x: x)
    with warnings.catch_warnings():
        warnings.simplefilter("ignore")
        h.fill.numpy(np.array([1.0, 1e300, -1e300, 2.0]))
    return sum(v.entries for v in h.bins.values()) + h.nanflow.entries != h.entries


def f35_bag_of_strings_label_nan():
    b = hg.Bag(lambda d: d, "S")
    for v in ("nan", "inf", "abc"):
        b.fill(v)
    r = hg.Factory.fromJson(b.toJson())
    try:
        return r.toJson() != b.toJson()
    except TypeError:
        return True


def f36_empty_sparse_container_loses_bins_name():
    from histogrammar.util import named
    out = []
    for h in (hg.SparselyBin(1.0, named("x", lambda d: d), hg.Sum(named("y", lambda d: d))),
              hg.Categorize(named("x", lambda d: d), hg.Sum(named("y", lambda d: d)))):
        j = h.toJson()
        out.append(hg.Factory.fromJson(j).toJson() != j)
    return all(out)


def f37_fillnumpy_negative_weights():
    import numpy as np
    h = hg.Bin(2, 0, 2, lambda x: x)
    h.fill.numpy(np.array([0.5, 1.5]), np.array([1.0, -3.0]))
    g = hg.Bin(2, 0, 2, lambda x: x)
    g.fill.numpy(np.array([0.5, 1.5]), -1.0)
    return h.entries != sum(v.entries for v in h.values) or g.entries < 0.0


def f38_sparse_fast_path_transformed_count():
    import numpy as np
    f = lambda w: w * w + 1
    a, b = hg.SparselyBin(1.0, lambda x: x, hg.Count(f)), hg.SparselyBin(1.0, lambda x: x, hg.Count(f))
    data = np.array([0.5, 0.6, 0.7, 1.5])
    for x in data:
        a.fill(float(x))
    b.fill.numpy(data)
    return a.toJson() != b.toJson()


def f39_count_numpy_transforms_zero_weight_rows():
    import numpy as np
    f = lambda w: w * w + 1
    a, b = hg.Bin(2, 0, 2, lambda x: x, hg.Count(f)), hg.Bin(2, 0, 2, lambda x: x, hg.Count(f))
    data = np.array([0.5, 1.5, float("inf")])       # the inf row sends Bin to its general (masking) path
    for x in data:
        a.fill(float(x))
    b.fill.numpy(data)
    return a.toJson() != b.toJson()


if __name__ == "__main__":
    present = 0
    for name, fn in sorted((k, v) for k, v in globals().items() if k.startswith("f") and k[1:3].isdigit()):
        try:
            r = fn()
        except Exception as e:  # a reproduction that cannot run is reported, not counted
            print(f"{name}: ERROR {type(e).__name__}: {e}")
            continue
        present += bool(r)
        print(f"{name}: {'DEFECT PRESENT' if r else 'ok'}")
    print(f"{present} defects present with histogrammar from {hg.__file__}")
